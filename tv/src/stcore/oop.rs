//! F16: object orientation, aggregates and the remaining statement / declaration forms (judged by
//! C01 and C03; no reference values).
//!
//! Like F13 (`stdlib.rs`) every case is a hand-templated ST program text (`raw`) plus a `Prog`
//! whose `vars` lists the elementary leaves of the program instance so that C03 knows their
//! declared tag. A leaf is named by its dump path below `Main.` (`r`, `arr[2]`, `s.y.x.a`,
//! `f.v`): `run::declared_types` only prefixes the name, so nested aggregates and FB members need
//! no AST support. Leaves of types outside `ast::Ty` (strings, dates, enums, references,
//! interface variables) are not listed.
//!
//! The generator over-generates on purpose and the COMPILER decides what is a case: a rejected
//! program is not a case (lowering refuses nested assignment targets and initialiser lists today;
//! those programs exist and are all rejected). Nothing of the checker is copied here.
//!
//! Sub-families (feature prefix), each enumerated completely, simplest first:
//!  1. `oop:`  methods (access specifier x call site; parameter-kind subsets x call style; every
//!     elementary parameter type; member access bare / THIS / shadowed), method calls at every
//!     expression position, EXTENDS (FB<-FB, CLASS<-CLASS, FB<-CLASS; one and two levels; which
//!     level overrides; with / without OVERRIDE; with / without SUPER), ABSTRACT / FINAL,
//!     base-typed references, interfaces (unassigned, assigned, re-assigned, NULL, compared, as
//!     parameter / FB input / array element, inheritance, two interfaces), properties, and a
//!     division by zero in cycle 2 inside every kind of method / accessor / body.
//!  2. `agg:`  access paths of depth 1..3 over nested structures / arrays (read, write, variable
//!     index, index leaving the range), whole-aggregate assignment, initialisers, arrays of FB /
//!     class instances, 3-D arrays, negative bounds, index variables of every integer type,
//!     aggregates as inputs / in-outs / outputs / results of functions, FBs and methods,
//!     comparison, `ARRAY[*]` with LOWER_BOUND / UPPER_BOUND, strings inside aggregates.
//!  3. `form:` VAR CONSTANT / VAR_TEMP / RETAIN / PERSISTENT, VAR_GLOBAL + VAR_EXTERNAL,
//!     VAR_ACCESS, namespaces + USING, actions, JMP / labels, RETURN in every POU kind at every
//!     nesting, EXIT / CONTINUE at every loop nesting inside methods, EN / ENO, bit and partial
//!     access on every type x position, SIZEOF / ADR, literals in every base, time literals,
//!     CASE label forms, empty statements, deep ELSIF chains, untyped literals as arguments.
//!  4. `fault:` for the constructs above that can hold a value-dependent fault, `x / z` with
//!     z = 0 from cycle 2 placed inside: C01 demands a value-dependent fault class and no frame.
//!
//! Features are cause classes without concrete values or counters. `judge_c01` cannot demand
//! that the fault of group 4 is exactly DivisionByZero (it accepts every value-dependent class and
//! `ok`); a wrapper that swallowed the fault would be C02's business.
//!
//! Rejected wholesale by the compiler today (the programs exist; each is a real refusal, checked per
//! group with the rejection reasons): aggregate initialiser lists (`[1,2,3]`, `(a := 1)`: not parsed),
//! assignment targets deeper than `name.field` / `name[i]` (lowering), LOWER_BOUND / UPPER_BOUND
//! (unknown to the checker), ADR / POINTER TO (no pointer values), calls of actions and actions in
//! programs, structure fields of FB / class type, VAR_STAT, top-level VAR_GLOBAL blocks, two
//! instances of one program, abstract methods with a result, inherited inputs in a derived FB call,
//! base-typed variables / parameters taking a derived instance, VAR CONSTANT in array bounds /
//! CASE labels / subranges (lowering evaluates them without the constant).
//!
//! Not covered: values (no reference semantics for these constructs: C02 is out of scope); the
//! shape of an array variable (a callee may replace a fixed array by one of other bounds through
//! `ARRAY[*]` parameters: the leaves disappear from the dump and `tag_violations` skips missing
//! leaves); declared tags of globals and of `LTIME` / date / string leaves (outside `ast::Ty` or
//! outside `Main.`); recursion through methods; several program instances / tasks (C06's
//! business); direct addresses on members (F9 / iolatch).
//!
//! Integer state is DINT with untyped literals (or typed literals for the other types) so that
//! the known root cause "arithmetic with an untyped literal is DINT" (F1u / F3u) is not
//! re-reported under F16 signatures.

use super::ast::*;
use super::run::Case;

const FAM: &str = "F16";

const ELEM: [&str; 16] = [
    "BOOL", "SINT", "INT", "DINT", "LINT", "USINT", "UINT", "UDINT", "ULINT", "REAL", "LREAL", "BYTE", "WORD", "DWORD", "LWORD", "TIME",
];
const INTS: [&str; 8] = ["SINT", "INT", "DINT", "LINT", "USINT", "UINT", "UDINT", "ULINT"];

fn elem(name: &str) -> Option<Ty> {
    Some(match name {
        "BOOL" => Ty::Bool,
        "SINT" => Ty::SInt,
        "INT" => Ty::Int,
        "DINT" => Ty::DInt,
        "LINT" => Ty::LInt,
        "USINT" => Ty::USInt,
        "UINT" => Ty::UInt,
        "UDINT" => Ty::UDInt,
        "ULINT" => Ty::ULInt,
        "REAL" => Ty::Real,
        "LREAL" => Ty::LReal,
        "BYTE" => Ty::Byte,
        "WORD" => Ty::Word,
        "DWORD" => Ty::DWord,
        "LWORD" => Ty::LWord,
        "TIME" => Ty::Time,
        _ => return None,
    })
}

fn width(t: &str) -> u32 {
    match t {
        "BOOL" => 1,
        "SINT" | "USINT" | "BYTE" => 8,
        "INT" | "UINT" | "WORD" => 16,
        "DINT" | "UDINT" | "DWORD" | "REAL" => 32,
        _ => 64,
    }
}

fn type_class(t: &str) -> &'static str {
    match t {
        "BOOL" => "bool",
        "SINT" | "INT" | "DINT" | "LINT" => "sint",
        "USINT" | "UINT" | "UDINT" | "ULINT" => "uint",
        "REAL" | "LREAL" => "real",
        "BYTE" | "WORD" | "DWORD" | "LWORD" => "bits",
        _ => "time",
    }
}

/// a small typed literal of the type ("one")
fn one(t: &str) -> String {
    match t {
        "BOOL" => "TRUE".into(),
        "REAL" | "LREAL" => format!("{t}#1.5"),
        "BYTE" | "WORD" | "DWORD" | "LWORD" => format!("{t}#16#1"),
        "TIME" => "T#1s".into(),
        "STRING" => "'ab'".into(),
        "WSTRING" => "\"ab\"".into(),
        "DATE" => "D#2024-02-29".into(),
        "TOD" => "TOD#12:30:15".into(),
        "DT" => "DT#2024-02-29-12:30:15".into(),
        "LTIME" => "LTIME#1us".into(),
        _ => format!("{t}#1"),
    }
}

/// Elementary leaves declared by a `name, name : TYPE := init; ...` list (arrays of elementary
/// types are expanded to their elements; everything else is skipped).
fn parse_decls(decls: &str) -> Vec<(String, Ty)> {
    let mut out = Vec::new();
    for item in decls.split(';') {
        let item = item.trim();
        let Some((names, rest)) = item.split_once(':') else { continue };
        let ty = rest.split(":=").next().unwrap_or("").trim();
        let names: Vec<&str> = names.split(',').filter_map(|n| n.split_whitespace().next()).collect();
        let up = ty.to_ascii_uppercase();
        if let Some(t) = elem(&up) {
            for n in names {
                out.push((n.to_string(), t));
            }
            continue;
        }
        // ARRAY[a..b, c..d] OF T
        let Some(inner) = up.strip_prefix("ARRAY[") else { continue };
        let Some((dims, of)) = inner.split_once(']') else { continue };
        let Some(t) = of.trim().strip_prefix("OF").and_then(|x| elem(x.trim())) else { continue };
        let mut n_elems: i64 = 1;
        let mut ok = true;
        for d in dims.split(',') {
            match d.split_once("..").and_then(|(a, b)| Some((a.trim().parse::<i64>().ok()?, b.trim().parse::<i64>().ok()?))) {
                Some((a, b)) if b >= a => n_elems *= b - a + 1,
                _ => ok = false,
            }
        }
        if !ok || n_elems > 256 {
            continue;
        }
        for n in names {
            for i in 0..n_elems {
                out.push((format!("{n}[{i}]"), t));
            }
        }
    }
    out
}

/// Program under construction: text before Main (types, POUs), Main's variable blocks, Main's
/// body, text after Main (CONFIGURATION), declared tags of leaves below `Main.`.
#[derive(Clone, Default)]
struct Pg {
    pre: String,
    blocks: Vec<(String, String)>,
    body: String,
    post: String,
    tags: Vec<(String, Ty)>,
    cycles: usize,
}

fn pg() -> Pg {
    Pg { cycles: 2, ..Default::default() }
}

impl Pg {
    fn pre(mut self, s: &str) -> Pg {
        self.pre.push_str(s);
        if !s.is_empty() && !s.ends_with('\n') {
            self.pre.push('\n');
        }
        self
    }
    fn var(self, decls: &str) -> Pg {
        self.block("VAR", decls)
    }
    fn block(mut self, kw: &str, decls: &str) -> Pg {
        self.blocks.push((kw.to_string(), decls.to_string()));
        self
    }
    fn body(mut self, s: &str) -> Pg {
        self.body.push_str(s);
        if !s.ends_with('\n') {
            self.body.push('\n');
        }
        self
    }
    fn post(mut self, s: &str) -> Pg {
        self.post.push_str(s);
        self
    }
    fn tag(mut self, path: &str, ty: Ty) -> Pg {
        self.tags.push((path.to_string(), ty));
        self
    }
    /// leaves of an aggregate / instance variable: `prefix` + each (suffix, type)
    fn tags(mut self, prefix: &str, leaves: &[(&str, Ty)]) -> Pg {
        for (s, t) in leaves {
            self.tags.push((format!("{prefix}{s}"), *t));
        }
        self
    }
    fn cycles(mut self, n: usize) -> Pg {
        self.cycles = n;
        self
    }
    fn text(&self) -> String {
        let mut t = String::new();
        t.push_str(&self.pre);
        t.push_str("PROGRAM Main\n");
        for (kw, decls) in &self.blocks {
            t.push_str(kw);
            t.push_str("\n    ");
            t.push_str(decls.trim());
            t.push_str("\nEND_VAR\n");
        }
        for line in self.body.lines() {
            t.push_str("    ");
            t.push_str(line);
            t.push('\n');
        }
        t.push_str("END_PROGRAM\n");
        t.push_str(&self.post);
        t
    }
    fn case(&self, feature: impl Into<String>) -> Case {
        let mut leaves: Vec<(String, Ty)> = Vec::new();
        for (kw, decls) in &self.blocks {
            let k = kw.to_ascii_uppercase();
            if k.starts_with("VAR_TEMP") || k.starts_with("VAR_EXTERNAL") || k.starts_with("VAR_GLOBAL") || k.starts_with("VAR_ACCESS") || k.starts_with("VAR_IN_OUT") {
                continue;
            }
            leaves.extend(parse_decls(decls));
        }
        leaves.extend(self.tags.iter().cloned());
        let vars: Vec<Decl> = leaves.iter().map(|(n, t)| Decl::new(n, *t)).collect();
        Case { family: FAM, feature: feature.into(), prog: Prog { vars, ..Default::default() }, cycles: self.cycles, reference: false, raw: Some(self.text()) }
    }
}

/// POU kinds that can carry methods.
#[derive(Clone, Copy, PartialEq)]
struct K {
    kw: &'static str,
    end: &'static str,
    id: &'static str,
}
const FBK: K = K { kw: "FUNCTION_BLOCK", end: "END_FUNCTION_BLOCK", id: "fb" };
const CLK: K = K { kw: "CLASS", end: "END_CLASS", id: "class" };
const KINDS: [K; 2] = [FBK, CLK];

// ---------------------------------------------------------------------------------------------
// 1. object orientation
// ---------------------------------------------------------------------------------------------

const ACCESS: [&str; 5] = ["", "PUBLIC", "PRIVATE", "PROTECTED", "INTERNAL"];

fn acc_id(a: &str) -> String {
    if a.is_empty() {
        "default".into()
    } else {
        a.to_ascii_lowercase()
    }
}

fn methods_basic(out: &mut Vec<Case>) {
    // access specifier x call site (external, bare call from a sibling method, THIS call)
    for k in KINDS {
        for acc in ACCESS {
            for (site, call) in [("external", "r := o.M();"), ("bare-call", "r := o.W1();"), ("this-call", "r := o.W2();")] {
                // both spellings of the specifier position: `METHOD PUBLIC M` and `PUBLIC METHOD M`
                for head in [format!("METHOD {acc} M : DINT"), format!("{acc} METHOD M : DINT")] {
                    if acc.is_empty() && head.starts_with(' ') {
                        continue;
                    }
                    let pre = format!(
                        "{} T\nVAR v : DINT; END_VAR\n{head}\n    v := v + 1;\n    M := v;\nEND_METHOD\nMETHOD PUBLIC W1 : DINT\n    W1 := M();\nEND_METHOD\nMETHOD PUBLIC W2 : DINT\n    W2 := THIS.M();\nEND_METHOD\n{}\n",
                        k.kw, k.end
                    );
                    out.push(pg().pre(&pre).var("o : T; r : DINT;").body(call).tag("o.v", Ty::DInt).cycles(3).case(format!("oop:method:{}:{}:{site}", k.id, acc_id(acc))));
                }
            }
        }
    }
    // parameter-kind subsets x call style
    for k in KINDS {
        for mask in 0u32..32 {
            let (has_in, has_io, has_out, has_loc, has_ret) = (mask & 1 != 0, mask & 2 != 0, mask & 4 != 0, mask & 8 != 0, mask & 16 != 0);
            let mut m = format!("METHOD PUBLIC M{}\n", if has_ret { " : DINT" } else { "" });
            if has_in {
                m.push_str("VAR_INPUT a : DINT; END_VAR\n");
            }
            if has_io {
                m.push_str("VAR_IN_OUT io : DINT; END_VAR\n");
            }
            if has_out {
                m.push_str("VAR_OUTPUT q : DINT; END_VAR\n");
            }
            if has_loc {
                m.push_str("VAR l : DINT := 3; END_VAR\n");
            }
            m.push_str(&format!("    v := v + 1{}{};\n", if has_in { " + a" } else { "" }, if has_loc { " + l" } else { "" }));
            if has_io {
                m.push_str("    io := io + v;\n");
            }
            if has_out {
                m.push_str("    q := v;\n");
            }
            if has_ret {
                m.push_str("    M := v;\n");
            }
            m.push_str("END_METHOD\n");
            let pre = format!("{} T\nVAR v : DINT; END_VAR\n{m}{}\n", k.kw, k.end);
            let mut formal = Vec::new();
            let mut positional = Vec::new();
            if has_in {
                formal.push("a := 2");
                positional.push("2");
            }
            if has_io {
                formal.push("io := x");
                positional.push("x");
            }
            if has_out {
                formal.push("q => y");
                positional.push("y");
            }
            let shape = format!("{}{}{}", if has_io { "+inout" } else { "" }, if has_out { "+out" } else { "" }, if has_ret { "+result" } else { "" });
            let shape = if shape.is_empty() { "+input-only".to_string() } else { shape };
            let mut styles: Vec<(&str, String)> = vec![("formal", formal.join(", ")), ("positional", positional.join(", "))];
            if formal.len() >= 2 {
                // positional arguments first, formal ones after (docs: "mixed calls are allowed")
                let mut mixed = vec![positional[0].to_string()];
                mixed.extend(formal[1..].iter().map(|s| s.to_string()));
                styles.push(("mixed", mixed.join(", ")));
                // formal arguments in reversed order
                let mut rev = formal.clone();
                rev.reverse();
                styles.push(("formal-reversed", rev.join(", ")));
                // an output / in-out left unconnected
                styles.push(("formal-first-only", formal[0].to_string()));
            }
            for (style, args) in styles {
                let call = if has_ret { format!("r := o.M({args});") } else { format!("o.M({args});") };
                out.push(pg().pre(&pre).var("o : T; r : DINT; x : DINT; y : DINT;").body(&call).tag("o.v", Ty::DInt).cycles(3).case(format!("oop:method-params:{style}:{shape}")));
            }
        }
    }
    // every elementary parameter type through input, in-out, output and result
    let mut types: Vec<&str> = ELEM.to_vec();
    types.extend(["STRING", "WSTRING", "DATE", "TOD", "DT", "LTIME"]);
    for k in KINDS {
        for t in &types {
            let pre = format!(
                "{} T\nVAR keep : {t}; END_VAR\nMETHOD PUBLIC Echo : {t}\nVAR_INPUT a : {t}; END_VAR\n    keep := a;\n    Echo := a;\nEND_METHOD\nMETHOD PUBLIC Io\nVAR_IN_OUT io : {t}; END_VAR\nVAR_OUTPUT q : {t}; END_VAR\nVAR l : {t}; END_VAR\n    l := io;\n    q := l;\n    io := keep;\nEND_METHOD\n{}\n",
                k.kw, k.end
            );
            let mut p = pg().pre(&pre).var(&format!("o : T; x : {t} := {}; y : {t}; r : {t}; s : {t};", one(t)));
            if let Some(ty) = elem(t) {
                p = p.tag("o.keep", ty);
            }
            out.push(p.clone().body("r := o.Echo(x);\ns := o.Echo(a := x);\no.Io(io := x, q => y);").case(format!("oop:method-param-type:{t}")));
            out.push(p.body(&format!("r := o.Echo({});\no.Io(x, y);", one(t))).case(format!("oop:method-param-type:{t}")));
        }
    }
    // member access from a method: bare, THIS, shadowed by a local / parameter
    for k in KINDS {
        for (what, decl, stmts, call) in [
            ("bare-read", "", "M := v;", "r := o.M();"),
            ("bare-write", "", "v := v + 1;\n    M := v;", "r := o.M();"),
            ("this-read", "", "M := THIS.v;", "r := o.M();"),
            ("this-write", "", "THIS.v := THIS.v + 1;\n    M := THIS.v;", "r := o.M();"),
            ("this-write-then-bare-read", "", "THIS.v := v + 1;\n    M := v;", "r := o.M();"),
            ("shadowed-by-local", "VAR v : DINT := 7; END_VAR\n", "v := v + 1;\n    M := v;", "r := o.M();"),
            ("shadowed-by-local-this-write", "VAR v : DINT := 7; END_VAR\n", "THIS.v := v;\n    M := THIS.v;", "r := o.M();"),
            ("shadowed-by-input", "VAR_INPUT v : DINT; END_VAR\n", "M := v;", "r := o.M(v := 5);"),
            ("shadowed-by-input-this-write", "VAR_INPUT v : DINT; END_VAR\n", "THIS.v := v;\n    M := THIS.v;", "r := o.M(v := 5);"),
            ("array-member-element", "", "arr[1] := arr[1] + 1;\n    M := arr[1];", "r := o.M();"),
            ("array-member-element-this", "", "THIS.arr[1] := THIS.arr[1] + 1;\n    M := THIS.arr[1];", "r := o.M();"),
            ("struct-member-field", "", "st.a := st.a + 1;\n    M := st.a;", "r := o.M();"),
            ("struct-member-field-this", "", "THIS.st.a := THIS.st.a + 1;\n    M := THIS.st.a;", "r := o.M();"),
            ("string-member", "", "txt := CONCAT(txt, 'x');\n    M := LEN(txt);", "r := o.M();"),
            ("member-named-like-method", "", "M := M2;", "r := o.M();"),
        ] {
            let pre = format!(
                "TYPE St : STRUCT a : DINT; b : DINT; END_STRUCT END_TYPE\n{} T\nVAR v : DINT; M2 : DINT := 4; arr : ARRAY[0..2] OF DINT; st : St; txt : STRING[4]; END_VAR\nMETHOD PUBLIC M : DINT\n{decl}    {stmts}\nEND_METHOD\n{}\n",
                k.kw, k.end
            );
            out.push(
                pg().pre(&pre)
                    .var("o : T; r : DINT;")
                    .body(call)
                    .tags("o.", &[("v", Ty::DInt), ("M2", Ty::DInt), ("arr[0]", Ty::DInt), ("arr[1]", Ty::DInt), ("arr[2]", Ty::DInt), ("st.a", Ty::DInt), ("st.b", Ty::DInt)])
                    .cycles(3)
                    .case(format!("oop:member-access:{}:{what}", k.id)),
            );
        }
        // members accessed from outside the instance, per access specifier of the VAR block
        for acc in ACCESS {
            for (rw, body) in [("read", "r := o.v;"), ("write", "o.v := 5;\no.v := o.v + 1;"), ("write-untyped-into-int", "o.n := 5;")] {
                let pre = format!("{} T\nVAR {acc} v : DINT := 2; n : INT; END_VAR\nMETHOD PUBLIC M : DINT\n    M := v;\nEND_METHOD\n{}\n", k.kw, k.end);
                out.push(pg().pre(&pre).var("o : T; r : DINT;").body(body).tag("o.v", Ty::DInt).tag("o.n", Ty::Int).case(format!("oop:member-external:{}:{}:{rw}", k.id, acc_id(acc))));
            }
        }
    }
}

/// Method calls at every kind of expression position (in Main and inside another method).
fn method_call_positions(out: &mut Vec<Case>) {
    for k in KINDS {
        let t = format!(
            "{} T\nVAR v : DINT; END_VAR\nMETHOD PUBLIC Inc : DINT\n    v := v + 1;\n    Inc := v;\nEND_METHOD\nMETHOD PUBLIC Add : DINT\nVAR_INPUT a : DINT; END_VAR\n    Add := v + a;\nEND_METHOD\nMETHOD PUBLIC Flag : BOOL\n    v := v + 1;\n    Flag := v > 2;\nEND_METHOD\nMETHOD PUBLIC Nop\n    v := v + 1;\nEND_METHOD\n{}\n",
            k.kw, k.end
        );
        let fun = "FUNCTION Fn : DINT\nVAR_INPUT a : DINT; END_VAR\n    Fn := a + 1;\nEND_FUNCTION\nFUNCTION_BLOCK Plain\nVAR_INPUT i : DINT; END_VAR\nVAR_OUTPUT q : DINT; END_VAR\n    q := q + i;\nEND_FUNCTION_BLOCK\n";
        let sites: &[(&str, &str)] = &[
            ("statement", "o.Inc();"),
            ("statement-no-result", "o.Nop();"),
            ("statement-empty-parens-omitted", "o.Nop;"),
            ("assignment", "r := o.Inc();"),
            ("arithmetic-operands", "r := o.Inc() + o.Inc() * 2;"),
            ("comparison-operands", "b := o.Inc() < o.Inc();"),
            ("logic-operands", "b := o.Flag() AND o.Flag();"),
            ("logic-short-circuit-right", "b := FALSE AND o.Flag();"),
            ("unary-operand", "r := -o.Inc();\nb := NOT o.Flag();"),
            ("method-argument", "r := o.Add(o.Inc());"),
            ("method-argument-formal-nested", "r := o.Add(a := o.Add(a := o.Inc()));"),
            ("user-function-argument", "r := Fn(o.Inc());"),
            ("standard-function-argument", "r := MAX(o.Inc(), 3);"),
            ("fb-input-argument", "pl(i := o.Inc());\nr := pl.q;"),
            ("if-condition", "IF o.Inc() > 1 THEN r := 1; END_IF;"),
            ("if-condition-bool-method", "IF o.Flag() THEN r := 1; END_IF;"),
            ("elsif-condition", "IF r = 77 THEN r := 1; ELSIF o.Inc() > 1 THEN r := 2; END_IF;"),
            ("while-condition", "WHILE o.Inc() < 5 DO r := r + 1; END_WHILE;"),
            ("repeat-condition", "REPEAT r := r + 1; UNTIL o.Inc() > 3 END_REPEAT;"),
            ("for-start", "FOR i := o.Inc() TO 5 DO r := r + 1; END_FOR;"),
            ("for-end", "FOR i := 0 TO o.Inc() DO r := r + 1; END_FOR;"),
            ("for-step", "FOR i := 0 TO 6 BY o.Inc() DO r := r + 1; END_FOR;"),
            ("for-body", "FOR i := 0 TO 2 DO r := r + o.Inc(); END_FOR;"),
            ("case-selector", "CASE o.Inc() OF 1: r := 1; 2: r := 2; ELSE r := 3; END_CASE;"),
            ("case-branch", "CASE r OF 0: r := o.Inc(); ELSE r := o.Add(1); END_CASE;"),
            ("rvalue-index", "r := arr[o.Inc() MOD 3];"),
            ("assignment-target-index", "arr[o.Inc() MOD 3] := 1;"),
            ("return-value-of-function", "r := Wrap(o);"),
            ("return-statement-in-method", "r := o.Inc();\nRETURN;"),
        ];
        let wrap = "FUNCTION Wrap : DINT\nVAR_IN_OUT t : T; END_VAR\n    Wrap := t.Inc();\nEND_FUNCTION\n";
        for (name, stmt) in sites {
            let pre = format!("{t}{fun}{}", if stmt.contains("Wrap") { wrap } else { "" });
            out.push(
                pg().pre(&pre)
                    .var("o : T; pl : Plain; r : DINT; i : DINT; b : BOOL; arr : ARRAY[0..2] OF DINT;")
                    .body(stmt)
                    .tag("o.v", Ty::DInt)
                    .tag("pl.q", Ty::DInt)
                    .cycles(3)
                    .case(format!("oop:method-call-at:{name}")),
            );
        }
        // the same positions inside a method of another instance that owns `o` as a member
        for (name, stmt) in sites {
            if stmt.contains("Wrap") || stmt.contains("pl(") || stmt.ends_with("Nop;") {
                continue;
            }
            for (how, s2) in [("member-instance", stmt.to_string()), ("member-instance-this", stmt.replace("o.", "THIS.o."))] {
                let owner = format!(
                    "FUNCTION_BLOCK Owner\nVAR o : T; r : DINT; i : DINT; b : BOOL; arr : ARRAY[0..2] OF DINT; END_VAR\nMETHOD PUBLIC Run : DINT\n    {}\n    Run := r;\nEND_METHOD\nEND_FUNCTION_BLOCK\n",
                    s2.replace('\n', "\n    ")
                );
                out.push(
                    pg().pre(&format!("{t}{fun}{owner}"))
                        .var("w : Owner; r : DINT;")
                        .body("r := w.Run();")
                        .tag("w.o.v", Ty::DInt)
                        .tag("w.r", Ty::DInt)
                        .cycles(3)
                        .case(format!("oop:method-call-at:{how}{}", if name.starts_with("for-") || name.contains("condition") || name.starts_with("case") { ":in-control-statement" } else { "" })),
                );
            }
        }
        // receivers other than a plain variable
        for (name, decls, stmt) in [
            ("receiver:nested-member", "w : Outer;", "r := w.o.Inc();"),
            ("receiver:nested-member-two-levels", "ww : Outer2;", "r := ww.w.o.Inc();"),
            ("receiver:dereference", "o : T; p : REF_TO T;", "p := REF(o);\nr := p^.Inc();"),
            ("receiver:null-reference", "p : REF_TO T;", "r := p^.Inc();"),
            ("receiver:array-element", "os : ARRAY[0..1] OF T;", "r := os[1].Inc();"), // feature: agg:array-of-instances
            ("receiver:in-out-parameter", "o : T;", "r := Wrap(o);"),
            ("receiver:in-out-parameter-formal", "o : T;", "r := Wrap(t := o);"),
            ("receiver:input-parameter", "o : T;", "r := WrapIn(o);"),
            ("receiver:fb-input", "o : T; h : Holder;", "h(t := o);\nr := h.q;"),
            ("receiver:function-local-instance", "", "r := Local();"),
            ("receiver:method-local-instance", "w : Outer;", "r := w.MakeLocal();"),
            ("receiver:temp-instance", "w : Outer;", "w();\nr := w.q;"),
            ("receiver:global-instance", "", "r := g.Inc();"),
        ] {
            let extra = format!(
                "FUNCTION_BLOCK Outer\nVAR o : T; END_VAR\nVAR_OUTPUT q : DINT; END_VAR\nVAR_TEMP tmp : T; END_VAR\nMETHOD PUBLIC MakeLocal : DINT\nVAR loc : T; END_VAR\n    MakeLocal := loc.Inc();\nEND_METHOD\n    q := tmp.Inc();\nEND_FUNCTION_BLOCK\nFUNCTION_BLOCK Outer2\nVAR w : Outer; END_VAR\nEND_FUNCTION_BLOCK\n{wrap}FUNCTION WrapIn : DINT\nVAR_INPUT t : T; END_VAR\n    WrapIn := t.Inc();\nEND_FUNCTION\nFUNCTION_BLOCK Holder\nVAR_INPUT t : T; END_VAR\nVAR_OUTPUT q : DINT; END_VAR\n    q := t.Inc();\nEND_FUNCTION_BLOCK\nFUNCTION Local : DINT\nVAR loc : T; END_VAR\n    Local := loc.Inc();\nEND_FUNCTION\n"
            );
            let mut p = pg().pre(&format!("{t}{extra}")).var(&format!("{decls} r : DINT;")).body(stmt).cycles(3);
            if name == "receiver:global-instance" {
                p = p.block("VAR_EXTERNAL", "g : T;").post("CONFIGURATION Conf\nVAR_GLOBAL g : T; END_VAR\nPROGRAM Main : Main;\nEND_CONFIGURATION\n");
            }
            if decls.starts_with("o : T") {
                p = p.tag("o.v", Ty::DInt);
            }
            let feature = if name == "receiver:array-element" { format!("agg:array-of-instances:{}", k.id) } else { format!("oop:method-call-at:{name}") };
            out.push(p.case(feature));
        }
    }
}

/// EXTENDS chains.
fn inheritance(out: &mut Vec<Case>) {
    let combos: [(&str, K, K); 3] = [("fb<-fb", FBK, FBK), ("class<-class", CLK, CLK), ("fb<-class", CLK, FBK)];
    for (combo, kb, kd) in combos {
        for levels in 1..=2usize {
            // which derived levels override M (bit i = level i+1)
            for ovmask in 0..(1u32 << levels) {
                for with_super in [false, true] {
                    if ovmask == 0 && with_super {
                        continue;
                    }
                    for kw in ["OVERRIDE ", ""] {
                        if ovmask == 0 && kw.is_empty() {
                            continue;
                        }
                        let mut pre = format!(
                            "{} B0\nVAR PUBLIC v : DINT; END_VAR\nMETHOD PUBLIC M : DINT\n    v := v + 1;\n    M := v;\nEND_METHOD\nMETHOD PUBLIC Only0 : DINT\n    Only0 := v + 1000;\nEND_METHOD\nMETHOD PUBLIC CallsM : DINT\n    CallsM := M() + THIS.M();\nEND_METHOD\n{}\n",
                            kb.kw, kb.end
                        );
                        for l in 1..=levels {
                            // the middle level of fb<-class chains is a FB, the base a class
                            let k = kd;
                            let var = ["w", "u"][l - 1];
                            pre.push_str(&format!("{} B{l} EXTENDS B{}\nVAR PUBLIC {var} : DINT; END_VAR\n", k.kw, l - 1));
                            if ovmask & (1 << (l - 1)) != 0 {
                                pre.push_str(&format!(
                                    "METHOD PUBLIC {kw}M : DINT\n    {var} := {var} + 1;\n    M := {}{} + v + {var};\nEND_METHOD\n",
                                    if with_super { "SUPER.M() + " } else { "" },
                                    10 * l
                                ));
                            }
                            pre.push_str(&format!("METHOD PUBLIC Only{l} : DINT\n    v := v + 1;\n    Only{l} := v + {var};\nEND_METHOD\n{}\n", k.end));
                        }
                        let ov = match (ovmask, with_super) {
                            (0, _) => "no-override",
                            (_, false) => "override",
                            (_, true) => "override+super",
                        };
                        let mut whats: Vec<(&str, String)> = vec![
                            ("call-M", "r := d.M();".into()),
                            ("inherited-method", "r := d.Only0();".into()),
                            ("inherited-member-external", "d.v := 5;\nr := d.v;".into()),
                            ("inherited-member-in-derived-method", format!("r := d.Only{levels}();")),
                            ("base-method-calls-M", "r := d.CallsM();".into()),
                        ];
                        if levels == 2 {
                            whats.push(("middle-level-method", "r := d.Only1();".into()));
                        }
                        for (what, body) in whats {
                            let mut p = pg().pre(&pre).var(&format!("d : B{levels}; b : B0; r : DINT; r0 : DINT;")).body(&body).body("r0 := b.M();").cycles(3);
                            p = p.tag("b.v", Ty::DInt);
                            out.push(p.case(format!("oop:extends:{combo}:{what}:{ov}")));
                        }
                    }
                }
            }
        }
    }
    // further inheritance shapes (one program each)
    for (combo, kb, kd) in combos {
        let base = format!(
            "{} B0\nVAR PUBLIC v : DINT; END_VAR\nMETHOD PUBLIC M : DINT\n    v := v + 1;\n    M := v;\nEND_METHOD\nMETHOD PROTECTED Prot : DINT\n    Prot := v + 1;\nEND_METHOD\nMETHOD PRIVATE Priv : DINT\n    Priv := v + 2;\nEND_METHOD\n{}\n",
            kb.kw, kb.end
        );
        let shapes: Vec<(&str, String, &str, &str)> = vec![
            ("derived-calls-protected", format!("{} D EXTENDS B0\nMETHOD PUBLIC N : DINT\n    N := Prot() + THIS.Prot() + SUPER.Prot();\nEND_METHOD\n{}\n", kd.kw, kd.end), "d : D;", "r := d.N();"),
            ("derived-calls-private", format!("{} D EXTENDS B0\nMETHOD PUBLIC N : DINT\n    N := Priv();\nEND_METHOD\n{}\n", kd.kw, kd.end), "d : D;", "r := d.N();"),
            ("derived-shadows-member", format!("{} D EXTENDS B0\nVAR PUBLIC v : DINT := 50; END_VAR\nMETHOD PUBLIC N : DINT\n    v := v + 1;\n    N := v + SUPER.M();\nEND_METHOD\n{}\n", kd.kw, kd.end), "d : D;", "r := d.N();\nr := d.M();"),
            ("super-member-read", format!("{} D EXTENDS B0\nMETHOD PUBLIC N : DINT\n    N := SUPER.v;\nEND_METHOD\n{}\n", kd.kw, kd.end), "d : D;", "r := d.N();"),
            ("super-member-write", format!("{} D EXTENDS B0\nMETHOD PUBLIC N : DINT\n    SUPER.v := SUPER.v + 1;\n    N := v;\nEND_METHOD\n{}\n", kd.kw, kd.end), "d : D;", "r := d.N();"),
            ("super-in-non-overriding-method", format!("{} D EXTENDS B0\nMETHOD PUBLIC N : DINT\n    N := SUPER.M() + M();\nEND_METHOD\n{}\n", kd.kw, kd.end), "d : D;", "r := d.N();"),
            ("super-method-two-levels-up", format!("{} D1 EXTENDS B0\n{}\n{} D EXTENDS D1\nMETHOD PUBLIC OVERRIDE M : DINT\n    M := SUPER.M() + 100;\nEND_METHOD\n{}\n", kd.kw, kd.end, kd.kw, kd.end), "d : D;", "r := d.M();"),
            ("method-with-parameters-overridden", format!("{} D EXTENDS B0\nMETHOD PUBLIC OVERRIDE M : DINT\n    M := SUPER.M() * 2;\nEND_METHOD\nMETHOD PUBLIC P : DINT\nVAR_INPUT a : DINT; END_VAR\nVAR_IN_OUT io : DINT; END_VAR\n    io := io + a;\n    P := M();\nEND_METHOD\n{}\n", kd.kw, kd.end), "d : D; x : DINT;", "r := d.P(a := 2, io := x);"),
            ("two-derived-siblings", format!("{} D EXTENDS B0\nMETHOD PUBLIC OVERRIDE M : DINT\n    M := 1;\nEND_METHOD\n{}\n{} E EXTENDS B0\nMETHOD PUBLIC OVERRIDE M : DINT\n    M := SUPER.M() + 2;\nEND_METHOD\n{}\n", kd.kw, kd.end, kd.kw, kd.end), "d : D; e : E;", "r := d.M() + e.M();"),
            ("final-method", format!("{} D EXTENDS B0\nMETHOD PUBLIC FINAL OVERRIDE M : DINT\n    M := 3;\nEND_METHOD\n{}\n", kd.kw, kd.end), "d : D;", "r := d.M();"),
            ("final-method-keyword-order", format!("{} D EXTENDS B0\nMETHOD PUBLIC OVERRIDE FINAL M : DINT\n    M := 3;\nEND_METHOD\n{}\n", kd.kw, kd.end), "d : D;", "r := d.M();"),
            ("final-derived", format!("{} FINAL D EXTENDS B0\nMETHOD PUBLIC OVERRIDE M : DINT\n    M := SUPER.M() + 3;\nEND_METHOD\n{}\n", kd.kw, kd.end), "d : D;", "r := d.M();"),
            ("reference-to-base:method-call", format!("{} D EXTENDS B0\nMETHOD PUBLIC OVERRIDE M : DINT\n    M := 100;\nEND_METHOD\n{}\n", kd.kw, kd.end), "d : D; p : REF_TO B0;", "p := REF(d);\nr := p^.M();"),
            ("reference-to-base:member", format!("{} D EXTENDS B0\n{}\n", kd.kw, kd.end), "d : D; p : REF_TO B0;", "p := REF(d);\np^.v := 4;\nr := p^.v;"),
            ("base-typed-in-out", format!("{} D EXTENDS B0\n{}\nFUNCTION UseBase : DINT\nVAR_IN_OUT b : B0; END_VAR\n    UseBase := b.M();\nEND_FUNCTION\n", kd.kw, kd.end), "d : D;", "r := UseBase(b := d);"),
            ("base-typed-input", format!("{} D EXTENDS B0\n{}\nFUNCTION UseBase : DINT\nVAR_INPUT b : B0; END_VAR\n    UseBase := b.M();\nEND_FUNCTION\n", kd.kw, kd.end), "d : D;", "r := UseBase(b := d);"),
            ("base-typed-variable-assigned", format!("{} D EXTENDS B0\n{}\n", kd.kw, kd.end), "d : D; b : B0;", "b := d;\nr := b.M();"),
            ("same-type-instance-assigned", String::new(), "a : B0; b : B0;", "r := a.M();\nb := a;\nr := b.M() + a.M();"),
        ];
        for (what, derived, decls, body) in shapes {
            out.push(pg().pre(&format!("{base}{derived}")).var(&format!("{decls} r : DINT;")).body(body).cycles(3).case(format!("oop:extends:{combo}:{what}")));
        }
    }
    // ABSTRACT classes / function blocks / methods (syntax variants: the compiler decides)
    for k in KINDS {
        for (what, abs_method, concrete) in [
            ("abstract-method:end-method", "METHOD PUBLIC ABSTRACT Area : DINT\nEND_METHOD\n", true),
            ("abstract-method:semicolon", "METHOD PUBLIC ABSTRACT Area : DINT;\n", true),
            ("abstract-method:no-result", "METHOD PUBLIC ABSTRACT Area\nEND_METHOD\n", false),
            ("abstract-method:with-input", "METHOD PUBLIC ABSTRACT Area : DINT\nVAR_INPUT f : DINT; END_VAR\nEND_METHOD\n", true),
        ] {
            let sig_in = if what.ends_with("with-input") { "VAR_INPUT f : DINT; END_VAR\n" } else { "" };
            let arg = if what.ends_with("with-input") { "f := 2" } else { "" };
            let (ret, set) = if concrete { (" : DINT", "    Area := n * n;\n") } else { ("", "") };
            let use_area = if concrete { format!("Twice := Area({arg}) * 2;") } else { format!("Area({arg});\n    Twice := n;") };
            let pre = format!(
                "{kw} ABSTRACT Shape\nVAR PUBLIC n : DINT := 3; END_VAR\n{abs_method}METHOD PUBLIC Twice : DINT\n    {use_area}\nEND_METHOD\n{end}\n{kw} Sq EXTENDS Shape\nMETHOD PUBLIC OVERRIDE Area{ret}\n{sig_in}    n := n + 1;\n{set}END_METHOD\nMETHOD PUBLIC ViaSuper : DINT\n    ViaSuper := SUPER.Twice();\nEND_METHOD\n{end}\n",
                kw = k.kw,
                end = k.end
            );
            for (site, body) in [("direct", if concrete { format!("r := s.Area({arg});") } else { format!("s.Area({arg});") }), ("through-base-method", "r := s.Twice();".to_string()), ("through-super", "r := s.ViaSuper();".to_string())] {
                out.push(pg().pre(&pre).var("s : Sq; r : DINT;").body(&body).cycles(3).case(format!("oop:abstract:{}:{what}:{site}", k.id)));
            }
        }
        // an abstract type that is only declared, an instance of it (the checker should refuse)
        let pre = format!("{} ABSTRACT Shape\nVAR PUBLIC n : DINT; END_VAR\nMETHOD PUBLIC ABSTRACT Area : DINT\nEND_METHOD\n{}\n", k.kw, k.end);
        out.push(pg().pre(&pre).var("r : DINT;").body("r := r + 1;").case(format!("oop:abstract:{}:declared-only", k.id)));
        out.push(pg().pre(&pre).var("s : Shape; r : DINT;").body("r := s.Area();").case(format!("oop:abstract:{}:instantiated", k.id)));
    }
    // FB bodies along an EXTENDS chain
    for (what, derived_body, call) in [
        ("derived-body-reads-inherited-input", "    q := q + i;\n", "d(i := 2);\nr := d.q;"),
        ("derived-body-calls-super-body", "    SUPER();\n    q := q + 1;\n", "d(i := 2);\nr := d.q;"),
        ("derived-body-calls-super-body-with-argument", "    SUPER(i := i + 1);\n    q := q + 1;\n", "d(i := 2);\nr := d.q;"),
        ("derived-without-body", "", "d(i := 2);\nr := d.q;"),
        ("derived-adds-input", "    q := q + i + j;\n", "d(i := 2, j := 3);\nr := d.q;"),
        ("inherited-output-bound", "    q := q + i;\n", "d(i := 2, q => r);"),
        ("positional-call-inherited-parameters", "    q := q + i;\n", "d(2);\nr := d.q;"),
        ("base-method-from-derived-body", "    q := Fetch() + i;\n", "d(i := 2);\nr := d.q;"),
    ] {
        let pre = format!(
            "FUNCTION_BLOCK Base\nVAR_INPUT i : DINT; END_VAR\nVAR_OUTPUT q : DINT; END_VAR\nVAR n : DINT; END_VAR\nMETHOD PUBLIC Fetch : DINT\n    Fetch := q;\nEND_METHOD\n    n := n + 1;\n    q := q + 10 * i;\nEND_FUNCTION_BLOCK\nFUNCTION_BLOCK Der EXTENDS Base\nVAR_INPUT j : DINT; END_VAR\n{derived_body}END_FUNCTION_BLOCK\n"
        );
        out.push(pg().pre(&pre).var("d : Der; r : DINT;").body(call).cycles(3).case(format!("oop:extends:fb-body:{what}")));
    }
}

fn interfaces(out: &mut Vec<Case>) {
    for k in KINDS {
        let pre = format!(
            "INTERFACE I\nMETHOD M : DINT\nEND_METHOD\nMETHOD P : DINT\nVAR_INPUT a : DINT; END_VAR\nVAR_IN_OUT io : DINT; END_VAR\nVAR_OUTPUT q : DINT; END_VAR\nEND_METHOD\nEND_INTERFACE\nINTERFACE J\nMETHOD N : DINT\nEND_METHOD\nEND_INTERFACE\nINTERFACE I2 EXTENDS I\nMETHOD M2 : DINT\nEND_METHOD\nEND_INTERFACE\n{kw} A IMPLEMENTS I\nVAR v : DINT; END_VAR\nMETHOD PUBLIC M : DINT\n    v := v + 1;\n    M := v;\nEND_METHOD\nMETHOD PUBLIC P : DINT\nVAR_INPUT a : DINT; END_VAR\nVAR_IN_OUT io : DINT; END_VAR\nVAR_OUTPUT q : DINT; END_VAR\n    io := io + a;\n    q := v;\n    P := io;\nEND_METHOD\n{end}\n{kw} B IMPLEMENTS I, J\nVAR v : DINT; END_VAR\nMETHOD PUBLIC M : DINT\n    v := v + 2;\n    M := 100 + v;\nEND_METHOD\nMETHOD PUBLIC P : DINT\nVAR_INPUT a : DINT; END_VAR\nVAR_IN_OUT io : DINT; END_VAR\nVAR_OUTPUT q : DINT; END_VAR\n    q := a;\n    P := 7;\nEND_METHOD\nMETHOD PUBLIC N : DINT\n    N := v;\nEND_METHOD\n{end}\n{kw} C IMPLEMENTS I2\nVAR v : DINT; END_VAR\nMETHOD PUBLIC M : DINT\n    M := 1;\nEND_METHOD\nMETHOD PUBLIC P : DINT\nVAR_INPUT a : DINT; END_VAR\nVAR_IN_OUT io : DINT; END_VAR\nVAR_OUTPUT q : DINT; END_VAR\n    P := 2;\nEND_METHOD\nMETHOD PUBLIC M2 : DINT\n    v := v + 1;\n    M2 := v;\nEND_METHOD\n{end}\n{kw} AD EXTENDS A\nMETHOD PUBLIC OVERRIDE M : DINT\n    M := SUPER.M() + 1000;\nEND_METHOD\n{end}\nFUNCTION UseI : DINT\nVAR_INPUT x : I; END_VAR\n    UseI := x.M();\nEND_FUNCTION\nFUNCTION UseIo : DINT\nVAR_IN_OUT x : I; END_VAR\n    UseIo := x.M();\nEND_FUNCTION\nFUNCTION Pick : I\nVAR_INPUT x : I; END_VAR\n    Pick := x;\nEND_FUNCTION\nFUNCTION_BLOCK Keeper\nVAR_INPUT x : I; END_VAR\nVAR kept : I; END_VAR\nVAR_OUTPUT q : DINT; END_VAR\nMETHOD PUBLIC Take : DINT\nVAR_INPUT y : I; END_VAR\n    kept := y;\n    Take := kept.M();\nEND_METHOD\n    IF x <> NULL THEN kept := x; END_IF;\n    q := kept.M();\nEND_FUNCTION_BLOCK\n",
            kw = k.kw,
            end = k.end
        );
        let decls = "a : A; b : B; c : C; ad : AD; i : I; i1 : I; j : J; i2 : I2; kp : Keeper; ia : ARRAY[0..1] OF I; r : DINT; x : DINT; y : DINT; n : DINT; ok : BOOL;";
        for (what, body) in [
            ("null:call", "r := i.M();"),
            ("null:call", "r := i.P(a := 1, io := x, q => y);"),
            ("null:call", "i.M();"),
            ("null:call-in-callee", "r := UseI(i);"),
            ("null:call-in-callee", "kp(x := i);\nr := kp.q;"),
            ("null:compare", "ok := i = NULL;\nok := i <> NULL;\nok := NULL = i;"),
            ("null:guarded-call", "IF i <> NULL THEN r := i.M(); END_IF;"),
            ("null:guarded-call", "IF i <> NULL AND i.M() > 0 THEN r := 1; END_IF;"),
            ("null:copy", "i1 := i;\nok := i1 = NULL;"),
            ("unassigned:array-element-call", "r := ia[1].M();"),
            ("null:call-after-assigning-NULL", "i := a;\ni := NULL;\nr := i.M();"),
            ("assigned:call", "i := a;\nr := i.M();"),
            ("assigned:call-with-parameters", "i := a;\nr := i.P(a := 1, io := x, q => y);"),
            ("assigned:call-positional", "i := a;\nr := i.P(1, x, y);"),
            ("assigned:call-statement", "i := a;\ni.M();"),
            ("assigned:second-implementer", "i := b;\nr := i.M();"),
            ("assigned:assigned-in-first-cycle-only", "IF n = 0 THEN i := a; END_IF;\nr := i.M();\nn := n + 1;"),
            ("assigned:switches-implementer-each-cycle", "IF n MOD 2 = 0 THEN i := a; ELSE i := b; END_IF;\nr := i.M();\nn := n + 1;"),
            ("null:call-after-assigning-NULL", "IF n = 0 THEN i := a; ELSE i := NULL; END_IF;\nr := i.M();\nn := n + 1;"),
            ("assigned:copy-to-second-variable", "i := a;\ni1 := i;\nr := i1.M() + i.M();"),
            ("assigned:compare", "i := a;\ni1 := a;\nok := i = i1;\ni1 := b;\nok := i <> i1;\nok := i = NULL;"),
            ("assigned:derived-instance", "i := ad;\nr := i.M();"),
            ("assigned:second-interface-of-class", "j := b;\nr := j.N();"),
            ("assigned:both-interfaces-same-instance", "i := b;\nj := b;\nr := i.M() + j.N();"),
            ("assigned:derived-interface", "i2 := c;\nr := i2.M2() + i2.M();"),
            ("assigned:derived-interface-to-base-interface", "i2 := c;\ni := i2;\nr := i.M();"),
            ("assigned:array-element", "ia[0] := a;\nia[1] := b;\nr := ia[0].M() + ia[1].M();"),
            ("assigned:array-element-variable-index", "ia[0] := a;\nia[1] := b;\nr := ia[n MOD 2].M();\nn := n + 1;"),
            ("assigned:array-index-out-of-range", "ia[0] := a;\nr := ia[n].M();\nn := n + 2;"),
            ("parameter:function-input:instance", "r := UseI(a);"),
            ("parameter:function-input:formal", "r := UseI(x := b);"),
            ("parameter:function-input:interface-variable", "i := a;\nr := UseI(i);"),
            ("parameter:function-in-out", "i := a;\nr := UseIo(i);"),
            ("parameter:function-result", "i := Pick(a);\nr := i.M();"),
            ("parameter:function-result-direct-call", "r := Pick(a).M();"),
            ("parameter:fb-input-kept", "IF n = 0 THEN kp(x := a); ELSE kp(x := NULL); END_IF;\nr := kp.q;\nn := n + 1;"),
            ("null:call-in-callee", "kp();\nr := kp.q;"),
            ("parameter:method-input", "r := kp.Take(a);\nr := kp.Take(y := b);"),
            ("null:call-in-callee", "r := kp.Take(NULL);"),
            ("member:external-read-of-interface-member", "kp(x := a);\ni := kp.kept;\nr := i.M();"),
        ] {
            // a call through a variable that holds no instance does not depend on the implementers,
            // arrays of interface variables are one cause class
            let feature = if what.contains("array") {
                "agg:array-of-instances:interface".to_string()
            } else if let Some(w) = what.strip_prefix("null:") {
                format!("oop:interface:null:{w}")
            } else {
                format!("oop:interface:{}:{what}", k.id)
            };
            out.push(pg().pre(&pre).var(decls).body(body).tag("a.v", Ty::DInt).tag("b.v", Ty::DInt).cycles(3).case(feature));
        }
    }
    // an interface implemented by an FB that also has a body and inputs; interface in a struct
    let pre = "INTERFACE I\nMETHOD M : DINT\nEND_METHOD\nEND_INTERFACE\nFUNCTION_BLOCK A IMPLEMENTS I\nVAR_INPUT k : DINT; END_VAR\nVAR v : DINT; END_VAR\nMETHOD PUBLIC M : DINT\n    M := v;\nEND_METHOD\n    v := v + k;\nEND_FUNCTION_BLOCK\n";
    out.push(pg().pre(pre).var("a : A; i : I; r : DINT;").body("a(k := 2);\ni := a;\nr := i.M();").cycles(3).case("oop:interface:fb-with-body"));
    let pre = &format!("{pre}TYPE Holder : STRUCT i : I; n : DINT; END_STRUCT END_TYPE\n");
    out.push(pg().pre(pre).var("a : A; h : Holder; r : DINT;").body("h.i := a;\nr := h.i.M();").cycles(3).case("oop:interface:struct-field:assigned"));
    out.push(pg().pre(pre).var("h : Holder; r : DINT;").body("r := h.i.M();").cycles(3).case("oop:interface:struct-field:unassigned"));
}

fn properties(out: &mut Vec<Case>) {
    for k in KINDS {
        for (acc_form, head) in [("prefix", "PUBLIC PROPERTY Value : DINT"), ("infix", "PROPERTY PUBLIC Value : DINT"), ("none", "PROPERTY Value : DINT")] {
            for (shape, accessors) in [
                ("get+set", "GET\n    Value := v;\nEND_GET\nSET\n    v := Value;\nEND_SET\n"),
                ("get-only", "GET\n    Value := v + 1;\nEND_GET\n"),
                ("set-only", "SET\n    v := Value;\nEND_SET\n"),
            ] {
                let pre = format!(
                    "INTERFACE IP\nPROPERTY Value : DINT\nGET\nEND_GET\nSET\nEND_SET\nEND_PROPERTY\nEND_INTERFACE\n{kw} T\nVAR v : DINT := 1; END_VAR\n{head}\n{accessors}END_PROPERTY\nMETHOD PUBLIC Inside : DINT\n    Value := Value + 1;\n    Inside := THIS.Value;\nEND_METHOD\n{end}\n{kw} TI IMPLEMENTS IP\nVAR v : DINT := 1; END_VAR\n{head}\n{accessors}END_PROPERTY\n{end}\n",
                    kw = k.kw,
                    end = k.end
                );
                for (what, decls, body) in [
                    ("read", "o : T;", "r := o.Value;"),
                    ("write", "o : T;", "o.Value := 5;"),
                    ("read", "o : T;", "o.Value := o.Value + 1;\nr := o.Value;"),
                    ("inside-method", "o : T;", "r := o.Inside();"),
                    ("read", "o : T;", "r := MAX(o.Value, 3);"),
                    ("via-interface", "ti : TI; ip : IP;", "ip := ti;\nr := ip.Value;"),
                    ("via-interface", "ti : TI; ip : IP;", "ip := ti;\nip.Value := 4;"),
                ] {
                    // the access-specifier spelling and the accessor set select grammar paths, not run-time paths
                    let _ = (acc_form, shape);
                    out.push(pg().pre(&pre).var(&format!("{decls} r : DINT;")).body(body).cycles(3).case(format!("oop:property:{what}")));
                }
            }
        }
    }
}

/// A division by zero in cycle 2 inside every kind of method / accessor / inherited body.
fn oop_faults(out: &mut Vec<Case>) {
    for k in KINDS {
        let pre = format!(
            "INTERFACE I\nMETHOD Quot : DINT\nVAR_INPUT d : DINT; END_VAR\nEND_METHOD\nEND_INTERFACE\n{kw} B0 IMPLEMENTS I\nVAR PUBLIC v : DINT; zz : DINT := 1; END_VAR\nMETHOD PUBLIC Quot : DINT\nVAR_INPUT d : DINT; END_VAR\n    v := v + 1;\n    Quot := 10 / d;\nEND_METHOD\nMETHOD PUBLIC LocalInit : DINT\nVAR_INPUT d : DINT; END_VAR\nVAR l : DINT := 10 / d; END_VAR\n    LocalInit := l;\nEND_METHOD\nMETHOD PUBLIC Outer : DINT\nVAR_INPUT d : DINT; END_VAR\n    v := v + 1;\n    Outer := Quot(d) + 1;\nEND_METHOD\nMETHOD PUBLIC Outer2 : DINT\nVAR_INPUT d : DINT; END_VAR\n    Outer2 := THIS.Outer(d := d) + 1;\nEND_METHOD\nMETHOD PUBLIC InLoop : DINT\nVAR_INPUT d : DINT; END_VAR\nVAR i : DINT; END_VAR\n    FOR i := 0 TO 2 DO\n        WHILE TRUE DO\n            InLoop := InLoop + Quot(d);\n            EXIT;\n        END_WHILE;\n    END_FOR;\nEND_METHOD\nMETHOD PUBLIC WithIo : DINT\nVAR_INPUT d : DINT; END_VAR\nVAR_IN_OUT io : DINT; END_VAR\nVAR_OUTPUT q : DINT; END_VAR\n    io := io + 1;\n    q := 10 / d;\n    WithIo := q;\nEND_METHOD\nMETHOD PUBLIC Member : DINT\n    Member := 10 / zz;\n    zz := 0;\nEND_METHOD\nMETHOD PUBLIC Idx : DINT\nVAR_INPUT d : DINT; END_VAR\nVAR a : ARRAY[0..1] OF DINT; END_VAR\n    Idx := a[2 - d * 2];\nEND_METHOD\nMETHOD PUBLIC Ovf : INT\nVAR_INPUT d : DINT; END_VAR\nVAR s : INT := INT#32767; END_VAR\n    IF d = 0 THEN s := s + INT#1; END_IF;\n    Ovf := s;\nEND_METHOD\n{end}\n{kw} B1 EXTENDS B0\nMETHOD PUBLIC OVERRIDE Quot : DINT\nVAR_INPUT d : DINT; END_VAR\n    Quot := 20 / d;\nEND_METHOD\nMETHOD PUBLIC ViaSuper : DINT\nVAR_INPUT d : DINT; END_VAR\n    ViaSuper := SUPER.Quot(d) + 1;\nEND_METHOD\nMETHOD PUBLIC ViaSuperOuter : DINT\nVAR_INPUT d : DINT; END_VAR\n    ViaSuperOuter := SUPER.Outer(d);\nEND_METHOD\n{end}\n{kw} B2 EXTENDS B1\nMETHOD PUBLIC OVERRIDE Quot : DINT\nVAR_INPUT d : DINT; END_VAR\n    Quot := SUPER.Quot(d) + 1;\nEND_METHOD\n{end}\nFUNCTION ViaFn : DINT\nVAR_IN_OUT o : B0; END_VAR\nVAR_INPUT d : DINT; END_VAR\n    ViaFn := o.Quot(d);\nEND_FUNCTION\n",
            kw = k.kw,
            end = k.end
        );
        let decls = "z : DINT := 1; r : DINT; x : DINT; y : DINT; b0 : B0; b1 : B1; b2 : B2; i : I; p : REF_TO B0; rs : INT;";
        for (site, stmt) in [
            ("method-body", "r := b0.Quot(z);"),
            ("method-body:formal-call", "r := b0.Quot(d := z);"),
            ("method-body:call-statement", "b0.Quot(z);"),
            ("method-local-initializer", "r := b0.LocalInit(z);"),
            ("method-argument", "r := b0.Quot(10 / z);"),
            ("nested-method", "r := b0.Outer(z);"),
            ("nested-method-two-levels", "r := b0.Outer2(z);"),
            ("method-in-loops", "r := b0.InLoop(z);"),
            ("method-with-in-out-and-output", "r := b0.WithIo(d := z, io := x, q => y);"),
            ("method-with-in-out-and-output:positional", "r := b0.WithIo(z, x, y);"),
            ("method-divides-by-member", "r := b0.Member();"),
            ("method-index-out-of-bounds", "r := b0.Idx(z);"),
            ("method-overflow", "rs := b0.Ovf(z);"),
            ("overriding-method", "r := b1.Quot(z);"),
            ("super-call", "r := b1.ViaSuper(z);"),
            ("super-call-nested", "r := b1.ViaSuperOuter(z);"),
            ("super-chain-two-levels", "r := b2.Quot(z);"),
            ("inherited-method", "r := b1.Outer(z);"),
            ("inherited-method-two-levels", "r := b2.Outer2(z);"),
            ("interface-dispatch", "i := b1;\nr := i.Quot(z);"),
            ("interface-dispatch:argument", "i := b0;\nr := i.Quot(10 / z);"),
            ("through-reference", "p := REF(b0);\nr := p^.Quot(z);"),
            ("method-called-from-function", "r := ViaFn(b0, z);"),
            ("second-call-in-expression", "r := b0.Quot(1) + b0.Quot(z);"),
            ("in-condition", "IF b0.Quot(z) > 0 THEN r := 1; END_IF;"),
            ("in-for-bound", "FOR x := 0 TO b0.Quot(z) DO r := r + 1; END_FOR;"),
            ("in-case-selector", "CASE b0.Quot(z) OF 10: r := 1; ELSE r := 2; END_CASE;"),
        ] {
            out.push(pg().pre(&pre).var(decls).body(stmt).body("z := 0;").tag("b0.v", Ty::DInt).tag("b0.zz", Ty::DInt).cycles(3).case(format!("fault:oop:{site}")));
        }
        // property accessors
        let pre = format!(
            "{kw} T\nVAR v : DINT := 1; d : DINT := 1; END_VAR\nPUBLIC PROPERTY Value : DINT\nGET\n    Value := 10 / d;\nEND_GET\nSET\n    v := Value / d;\n    d := 0;\nEND_SET\nEND_PROPERTY\n{end}\n",
            kw = k.kw,
            end = k.end
        );
        out.push(pg().pre(&pre).var("o : T; r : DINT;").body("o.Value := 5;").cycles(3).case("fault:oop:property-accessor"));
        out.push(pg().pre(&pre).var("o : T; r : DINT;").body("r := o.Value;\no.Value := 5;").cycles(3).case("fault:oop:property-accessor"));
    }
    // FB bodies along an EXTENDS chain
    let pre = "FUNCTION_BLOCK Base\nVAR_INPUT d : DINT := 1; END_VAR\nVAR_OUTPUT q : DINT; END_VAR\nVAR_TEMP t : DINT; END_VAR\n    t := 10 / d;\n    q := q + t;\nEND_FUNCTION_BLOCK\nFUNCTION_BLOCK Der EXTENDS Base\n    SUPER(d := d);\n    q := q + 1;\nEND_FUNCTION_BLOCK\nFUNCTION_BLOCK Der2 EXTENDS Base\nVAR_INPUT e : DINT := 1; END_VAR\n    q := 10 / e;\nEND_FUNCTION_BLOCK\n";
    for (site, stmt) in [("super-body", "d1(d := z);"), ("derived-body", "d2(e := z);"), ("derived-body:argument", "d2(e := 10 / z);"), ("base-body", "b(d := z, q => r);")] {
        out.push(pg().pre(pre).var("z : DINT := 1; r : DINT; b : Base; d1 : Der; d2 : Der2;").body(stmt).body("z := 0;").cycles(3).case(format!("fault:oop:fb-body:{site}")));
    }
}

/// A method whose name is also the name of a standard or user function, called with and without
/// a receiver (the checker resolves the bare call to the method).
fn method_name_collisions(out: &mut Vec<Case>) {
    for k in KINDS {
        for (cls, name, params, expr, args) in [
            ("standard-function:other-arity", "Div", "VAR_INPUT d : DINT; END_VAR\n", "10 / d", "2"),
            ("standard-function:same-arity", "Abs", "VAR_INPUT d : DINT; END_VAR\n", "d + 100", "2"),
            ("standard-function:no-parameters", "Len", "", "v + 1", ""),
            ("user-function:other-arity", "Twice", "", "v + 1", ""),
            ("user-function:same-arity", "Twice", "VAR_INPUT d : DINT; END_VAR\n", "d + 100", "2"),
            ("conversion-function", "INT_TO_DINT", "VAR_INPUT d : DINT; END_VAR\n", "d + 100", "2"),
        ] {
            let pre = format!(
                "FUNCTION Twice : DINT\nVAR_INPUT a : DINT; END_VAR\n    Twice := a * 2;\nEND_FUNCTION\n{} T\nVAR v : DINT; END_VAR\nMETHOD PUBLIC {name} : DINT\n{params}    {name} := {expr};\nEND_METHOD\nMETHOD PUBLIC ViaBare : DINT\n    ViaBare := {name}({args});\nEND_METHOD\nMETHOD PUBLIC ViaThis : DINT\n    ViaThis := THIS.{name}({args});\nEND_METHOD\n{}\n",
                k.kw, k.end
            );
            for (site, body) in [("bare-call", "r := o.ViaBare();".to_string()), ("this-call", "r := o.ViaThis();".to_string()), ("external", format!("r := o.{name}({args});"))] {
                out.push(pg().pre(&pre).var("o : T; r : DINT;").body(&body).tag("o.v", Ty::DInt).case(format!("oop:method-named-like:{cls}:{site}")));
            }
        }
    }
}

// ---------------------------------------------------------------------------------------------
// 2. aggregates
// ---------------------------------------------------------------------------------------------

const TYPES_S: &str = "TYPE S3 : STRUCT a : DINT; f : REAL; END_STRUCT END_TYPE\nTYPE S2 : STRUCT x : S3; b : DINT; END_STRUCT END_TYPE\nTYPE S1 : STRUCT y : S2; arr : ARRAY[0..2] OF DINT; s : STRING[5]; sa : ARRAY[0..1] OF S3; w : WORD; n : DINT; END_STRUCT END_TYPE\n";
const S3_LEAVES: [(&str, Ty); 2] = [(".a", Ty::DInt), (".f", Ty::Real)];
const S2_LEAVES: [(&str, Ty); 3] = [(".x.a", Ty::DInt), (".x.f", Ty::Real), (".b", Ty::DInt)];
const S1_LEAVES: [(&str, Ty); 12] = [
    (".y.x.a", Ty::DInt),
    (".y.x.f", Ty::Real),
    (".y.b", Ty::DInt),
    (".arr[0]", Ty::DInt),
    (".arr[1]", Ty::DInt),
    (".arr[2]", Ty::DInt),
    (".sa[0].a", Ty::DInt),
    (".sa[0].f", Ty::Real),
    (".sa[1].a", Ty::DInt),
    (".sa[1].f", Ty::Real),
    (".w", Ty::Word),
    (".n", Ty::DInt),
];

/// the aggregate variables every `agg:` program declares, with their leaves
fn agg_vars(p: Pg) -> Pg {
    let mut p = p
        .pre(TYPES_S)
        .var("s3 : S3; t3 : S3; s2 : S2; t2 : S2; s1 : S1; t1 : S1; sa : ARRAY[0..1] OF S3; a2 : ARRAY[0..1] OF S2; as1 : ARRAY[0..1] OF S1; aa : ARRAY[0..1] OF ARRAY[0..2] OF DINT; a1 : ARRAY[0..2] OF DINT; b1 : ARRAY[0..2] OF DINT; a3 : ARRAY[0..1, 0..1, 0..1] OF DINT; b3 : ARRAY[0..1, 0..1, 0..1] OF DINT; r : DINT; k : DINT := 1; x : REAL; ok : BOOL;");
    p = p.tags("s3", &S3_LEAVES).tags("t3", &S3_LEAVES).tags("s2", &S2_LEAVES).tags("t2", &S2_LEAVES).tags("s1", &S1_LEAVES).tags("t1", &S1_LEAVES);
    for i in 0..2 {
        p = p.tags(&format!("sa[{i}]"), &S3_LEAVES).tags(&format!("a2[{i}]"), &S2_LEAVES).tags(&format!("as1[{i}]"), &S1_LEAVES);
        for j in 0..3 {
            p = p.tag(&format!("aa[{i}][{j}]"), Ty::DInt);
        }
    }
    p
}

fn agg_paths(out: &mut Vec<Case>) {
    // (shape, path with K as the index placeholder)
    let paths: [(&str, &str); 13] = [
        ("struct.field", "s2.b"),
        ("struct.struct.field", "s2.x.a"),
        ("struct.struct.struct.field", "s1.y.x.a"),
        ("struct.array[]", "s1.arr[K]"),
        ("struct.array[].field", "s1.sa[K].a"),
        ("array[].field", "sa[K].a"),
        ("array[].struct.field", "a2[K].x.a"),
        ("array[].array[]", "as1[K].arr[K]"),
        ("array[].struct.struct.field", "as1[K].y.x.a"),
        ("array[][]", "aa[K][K]"),
        ("array[,,]", "a3[K, K, K]"),
        ("array[]", "a1[K]"),
        ("(parenthesised).field", "(s2).b"),
    ];
    for (shape, path) in paths {
        let has_idx = path.contains('K');
        let c = path.replace('K', "1");
        let v = path.replace('K', "k");
        out.push(agg_vars(pg()).body(&format!("r := {c};")).case(format!("agg:path:{shape}:read")));
        out.push(agg_vars(pg()).body(&format!("{c} := 7;")).case(format!("agg:path:{shape}:write")));
        out.push(agg_vars(pg()).body(&format!("{c} := {c} + 1;\nr := {c};")).cycles(3).case(format!("agg:path:{shape}:read-modify-write")));
        if has_idx {
            out.push(agg_vars(pg()).body(&format!("r := {v};")).case(format!("agg:path:{shape}:read:variable-index")));
            out.push(agg_vars(pg()).body(&format!("{v} := 7;")).case(format!("agg:path:{shape}:write:variable-index")));
            out.push(agg_vars(pg()).body(&format!("r := {v};\nk := k + 5;")).case(format!("agg:path:{shape}:read:index-out-of-range")));
            out.push(agg_vars(pg()).body(&format!("{v} := 7;\nk := k + 5;")).case(format!("agg:path:{shape}:write:index-out-of-range")));
            out.push(agg_vars(pg()).body(&format!("r := {v};\nk := k - 2;")).case(format!("agg:path:{shape}:read:index-out-of-range")));
        }
    }
    // other leaf types at the end of a path (C03: the leaf keeps its tag)
    for (what, body) in [
        ("real-leaf", "s3.f := 1.5;\ns3.f := s3.f + REAL#1.0;\nx := s1.y.x.f + s3.f;"),
        ("real-leaf-from-int", "s3.f := k;"),
        ("real-leaf-untyped-integer-literal", "s3.f := 2;"),
        ("word-leaf", "s1.w := WORD#16#FF;"),
        ("word-leaf-logic", "s1.w := s1.w AND WORD#16#0F;"),
        ("word-leaf-untyped-literal", "s1.w := 16#FF;"),
        ("word-leaf-from-byte", "s1.w := BYTE#16#7;"),
        ("dint-leaf-from-narrower-integer", "s3.a := INT#5;\ns3.a := s3.a + SINT#5;"),
        ("string-leaf", "s1.s := 'abc';\ns1.s := CONCAT(s1.s, 'defgh');\nr := LEN(s1.s);"),
        ("string-leaf-too-long", "s1.s := 'abcdefghij';\nr := LEN(s1.s);"),
    ] {
        out.push(agg_vars(pg()).body(body).cycles(3).case(format!("agg:leaf:{what}")));
    }
}

fn agg_assign(out: &mut Vec<Case>) {
    for (what, body) in [
        ("struct:flat", "s3.a := 5;\nt3 := s3;\ns3.a := 6;\nr := t3.a;"),
        ("struct:nested", "s3.a := 5;\ns2.x := s3;\ns1.y := s2;\nt1 := s1;\nr := t1.y.x.a;"),
        ("struct:field-from-struct", "s3.a := 5;\ns2.x := s3;\nr := s2.x.a;"),
        ("struct:from-nested-field", "s3 := s1.y.x;\nt2 := s1.y;"),
        ("struct:from-array-element", "s3 := sa[1];\ns3 := sa[k];"),
        ("struct:into-array-element", "s3.a := 5;\nsa[1] := s3;\nsa[k] := s3;\nr := sa[1].a;"),
        ("struct:into-array-element-out-of-range", "sa[k] := s3;\nk := k + 5;"),
        ("struct:array-element-to-array-element", "sa[0] := sa[1];\nas1[1] := as1[0];\nas1[0] := s1;"),
        ("struct:self", "s1 := s1;\ns3 := s3;"),
        ("struct:chain", "s3.a := k;\nt3 := s3;\ns3 := t3;\nk := k + 1;"),
        ("array:1d", "a1[1] := 5;\nb1 := a1;\na1[1] := 6;\nr := b1[1];"),
        ("array:3d", "a3[1, 0, 1] := 5;\nb3 := a3;\nr := b3[1, 0, 1];"),
        ("array:of-structs", "as1[1] := s1;\nas1[0] := as1[1];"),
        ("array:row-of-array-of-arrays", "a1[1] := 5;\naa[1] := a1;\nb1 := aa[0];\nr := aa[1][1];"),
        ("array:from-struct-field", "a1 := s1.arr;"),
        ("array:into-struct-field", "a1[2] := 5;\ns1.arr := a1;\nr := s1.arr[2];"),
        ("array:self", "a1 := a1;\na3 := a3;"),
    ] {
        out.push(agg_vars(pg()).body(body).cycles(3).case(format!("agg:assign:{what}")));
    }
    // arrays of different shape / element type: the compiler decides; C03 watches the elements
    for (what, decls, body) in [
        ("array:different-bounds-same-length", "p : ARRAY[0..2] OF DINT; q : ARRAY[1..3] OF DINT;", "q[1] := 5;\np := q;\nr := p[0];\nr := p[2];"),
        ("array:different-length", "p : ARRAY[0..2] OF DINT; q : ARRAY[0..3] OF DINT;", "p := q;\nr := p[2];"),
        ("array:different-length-shrinks", "p : ARRAY[0..3] OF DINT; q : ARRAY[0..2] OF DINT;", "p := q;\nr := p[3];"),
        ("array:different-element-type", "p : ARRAY[0..2] OF DINT; q : ARRAY[0..2] OF INT;", "q[1] := INT#5;\np := q;\nr := p[1];"),
        ("array:different-dimensions", "p : ARRAY[0..3] OF DINT; q : ARRAY[0..1, 0..1] OF DINT;", "p := q;\nr := p[3];"),
        ("array:named-type-and-inline-type", "p : Arr3; q : ARRAY[0..2] OF DINT;", "q[1] := 5;\np := q;\nq := p;\nr := p[1];"),
        ("struct:different-type-same-layout", "p : S3; q : S3b;", "p := q;\nr := p.a;"),
    ] {
        out.push(pg().pre(TYPES_S).pre("TYPE S3b : STRUCT a : DINT; f : REAL; END_STRUCT END_TYPE\nTYPE Arr3 : ARRAY[0..2] OF DINT; END_TYPE\n").var(&format!("{decls} r : DINT;")).body(body).case(format!("agg:assign:{what}")));
    }
    // comparison of aggregates
    for (what, body) in [
        ("struct:eq", "ok := s3 = t3;"),
        ("struct:ne", "ok := s3 <> t3;"),
        ("struct:nested", "ok := s1 = t1;"),
        ("array:eq", "ok := a1 = b1;"),
        ("array:ne", "ok := a3 <> b3;"),
        ("array:of-structs", "ok := sa = sa;"),
        ("struct:ordering", "ok := s3 < t3;"),
        ("string-field", "s1.s := 'ab';\nok := s1.s = t1.s;\nok := s1.s > t1.s;"),
        ("array-element-structs", "ok := sa[0] = sa[1];"),
    ] {
        out.push(agg_vars(pg()).body(body).case(format!("agg:compare:{what}")));
    }
}

fn agg_init(out: &mut Vec<Case>) {
    // initialiser form x declared type (INT / REAL elements on purpose: an untyped literal must
    // not leave its DINT / LREAL tag in the element) x place of the declaration
    let forms: [(&str, &str, &str, Vec<(String, Ty)>); 14] = [
        ("array:list", "ARRAY[0..2] OF INT", "[1, 2, 3]", (0..3).map(|i| (format!("[{i}]"), Ty::Int)).collect()),
        ("array:list-typed", "ARRAY[0..2] OF INT", "[INT#1, INT#2, INT#3]", (0..3).map(|i| (format!("[{i}]"), Ty::Int)).collect()),
        ("array:repetition", "ARRAY[0..2] OF INT", "[3(0)]", (0..3).map(|i| (format!("[{i}]"), Ty::Int)).collect()),
        ("array:repetition-and-list", "ARRAY[0..3] OF INT", "[2(1), 5, 6]", (0..4).map(|i| (format!("[{i}]"), Ty::Int)).collect()),
        ("array:short-list", "ARRAY[0..3] OF INT", "[1, 2]", (0..4).map(|i| (format!("[{i}]"), Ty::Int)).collect()),
        ("array:long-list", "ARRAY[0..1] OF INT", "[1, 2, 3]", (0..2).map(|i| (format!("[{i}]"), Ty::Int)).collect()),
        ("array:real", "ARRAY[0..1] OF REAL", "[1.5, 2]", (0..2).map(|i| (format!("[{i}]"), Ty::Real)).collect()),
        ("array:2d-flat", "ARRAY[0..1, 0..1] OF INT", "[1, 2, 3, 4]", (0..4).map(|i| (format!("[{i}]"), Ty::Int)).collect()),
        ("array:2d-nested", "ARRAY[0..1, 0..1] OF INT", "[[1, 2], [3, 4]]", (0..4).map(|i| (format!("[{i}]"), Ty::Int)).collect()),
        ("array:of-strings", "ARRAY[0..1] OF STRING[3]", "['a', 'bcdef']", vec![]),
        ("struct:fields", "Si", "(a := 1, f := 2.5)", vec![(".a".into(), Ty::Int), (".f".into(), Ty::Real)]),
        ("struct:partial", "Si", "(a := 1)", vec![(".a".into(), Ty::Int), (".f".into(), Ty::Real)]),
        ("struct:nested", "So", "(i := (a := 1, f := 2), n := 3)", vec![(".i.a".into(), Ty::Int), (".i.f".into(), Ty::Real), (".n".into(), Ty::Int)]),
        ("array:of-structs", "ARRAY[0..1] OF Si", "[(a := 1), (a := 2, f := 1.0)]", vec![("[0].a".into(), Ty::Int), ("[1].a".into(), Ty::Int), ("[1].f".into(), Ty::Real)]),
    ];
    let types = "TYPE Si : STRUCT a : INT; f : REAL; END_STRUCT END_TYPE\nTYPE So : STRUCT i : Si; n : INT; arr : ARRAY[0..1] OF INT; END_STRUCT END_TYPE\n";
    for (form, ty, init, leaves) in &forms {
        let leaves_ref: Vec<(&str, Ty)> = leaves.iter().map(|(s, t)| (s.as_str(), *t)).collect();
        // program variable
        out.push(pg().pre(types).var(&format!("v : {ty} := {init}; r : DINT;")).body("r := r + 1;").tags("v", &leaves_ref).case(format!("agg:init:{form}:program-var")));
        // program constant
        out.push(pg().pre(types).block("VAR CONSTANT", &format!("v : {ty} := {init};")).var("r : DINT;").body("r := r + 1;").tags("v", &leaves_ref).case(format!("agg:init:{form}:constant")));
        // program temporary
        out.push(pg().pre(types).block("VAR_TEMP", &format!("v : {ty} := {init};")).var(&format!("w : {ty}; r : DINT;")).body("w := v;").tags("w", &leaves_ref).case(format!("agg:init:{form}:temp")));
        // FB variable, FB input default
        let fb = format!("FUNCTION_BLOCK F\nVAR_INPUT i : {ty} := {init}; END_VAR\nVAR v : {ty} := {init}; END_VAR\nVAR_OUTPUT q : DINT; END_VAR\n    q := q + 1;\nEND_FUNCTION_BLOCK\n");
        out.push(pg().pre(types).pre(&fb).var("f : F; r : DINT;").body("f();").tags("f.v", &leaves_ref).tags("f.i", &leaves_ref).case(format!("agg:init:{form}:fb-var")));
        // function local / input default, copied out through the result
        let fun = format!("FUNCTION Mk : {ty}\nVAR v : {ty} := {init}; END_VAR\n    Mk := v;\nEND_FUNCTION\nFUNCTION Dflt : {ty}\nVAR_INPUT v : {ty} := {init}; END_VAR\n    Dflt := v;\nEND_FUNCTION\n");
        out.push(pg().pre(types).pre(&fun).var(&format!("w : {ty}; r : DINT;")).body("w := Mk();").tags("w", &leaves_ref).case(format!("agg:init:{form}:function-local")));
        out.push(pg().pre(types).pre(&fun).var(&format!("w : {ty}; r : DINT;")).body("w := Dflt();").tags("w", &leaves_ref).case(format!("agg:init:{form}:function-input-default")));
        // global
        out.push(
            pg().pre(types)
                .block("VAR_EXTERNAL", &format!("v : {ty};"))
                .var(&format!("w : {ty}; r : DINT;"))
                .body("w := v;")
                .tags("w", &leaves_ref)
                .post(&format!("CONFIGURATION Conf\nVAR_GLOBAL v : {ty} := {init}; END_VAR\nPROGRAM Main : Main;\nEND_CONFIGURATION\n"))
                .case(format!("agg:init:{form}:global")),
        );
        // named type with a default
        out.push(pg().pre(types).pre(&format!("TYPE Tn : {ty} := {init}; END_TYPE\n")).var("v : Tn; r : DINT;").body("r := r + 1;").tags("v", &leaves_ref).case(format!("agg:init:{form}:named-type-default")));
    }
    // defaults of structure fields (scalar and aggregate), used by variables, array elements,
    // FB variables and function locals
    let sd = "TYPE Sd : STRUCT a : INT := 5; f : REAL := 1.5; u : USINT := 7; arr : ARRAY[0..1] OF INT := [1, 2]; s : STRING[3] := 'ab'; t : TIME := T#1s; END_STRUCT END_TYPE\n";
    let types = "TYPE Sd2 : STRUCT a : INT := 5; f : REAL := 2; w : WORD := 16#FF; b : BOOL := TRUE; END_STRUCT END_TYPE\nTYPE So2 : STRUCT i : Sd2; n : INT := 3; END_STRUCT END_TYPE\n";
    let sd2: [(&str, Ty); 4] = [(".a", Ty::Int), (".f", Ty::Real), (".w", Ty::Word), (".b", Ty::Bool)];
    out.push(pg().pre(sd).var("v : Sd; r : DINT;").body("r := v.a;").tags("v", &[(".a", Ty::Int), (".f", Ty::Real), (".u", Ty::USInt), (".arr[0]", Ty::Int), (".arr[1]", Ty::Int), (".t", Ty::Time)]).case("agg:init:struct-field-default:with-aggregate-field"));
    out.push(pg().pre(types).var("v : Sd2; r : DINT;").body("r := v.a;").tags("v", &sd2).case("agg:init:struct-field-default:program-var"));
    out.push(pg().pre(types).var("v : So2; r : DINT;").body("r := v.i.a;").tags("v.i", &sd2).tag("v.n", Ty::Int).case("agg:init:struct-field-default:nested"));
    out.push(pg().pre(types).var("v : ARRAY[0..1] OF Sd2; r : DINT;").body("r := v[1].a;").tags("v[0]", &sd2).tags("v[1]", &sd2).case("agg:init:struct-field-default:array-element"));
    out.push(pg().pre(types).pre("FUNCTION_BLOCK F\nVAR v : Sd2; END_VAR\nVAR_INPUT i : Sd2; END_VAR\nVAR_OUTPUT q : Sd2; END_VAR\n    q := v;\nEND_FUNCTION_BLOCK\n").var("f : F; r : DINT;").body("f();").tags("f.v", &sd2).tags("f.i", &sd2).tags("f.q", &sd2).case("agg:init:struct-field-default:fb-var"));
    out.push(pg().pre(types).pre("FUNCTION Mk : Sd2\nVAR v : Sd2; END_VAR\n    Mk := v;\nEND_FUNCTION\nFUNCTION Res : Sd2\n    Res.a := Res.a + INT#1;\nEND_FUNCTION\n").var("w : Sd2; u : Sd2; r : DINT;").body("w := Mk();\nu := Res();").tags("w", &sd2).tags("u", &sd2).case("agg:init:struct-field-default:function-local-and-result"));
    out.push(pg().pre(types).var("v : Sd2 := (a := 9); r : DINT;").body("r := v.a;").tags("v", &sd2).case("agg:init:struct-field-default:overridden-by-initialiser"));
    for t in ELEM {
        let Some(ty) = elem(t) else { continue };
        let untyped = match t {
            "BOOL" => "TRUE",
            "REAL" | "LREAL" => "2",
            "TIME" => "T#1s",
            "BYTE" | "WORD" | "DWORD" | "LWORD" => "16#F",
            _ => "5",
        };
        for (how, init) in [("untyped", untyped.to_string()), ("typed", one(t))] {
            let ty_decl = format!("TYPE Sx : STRUCT m : {t} := {init}; END_STRUCT END_TYPE\n");
            out.push(pg().pre(&ty_decl).var("v : Sx; a : ARRAY[0..1] OF Sx; r : DINT;").body("r := r + 1;").tag("v.m", ty).tag("a[1].m", ty).case(format!("agg:init:struct-field-default:{}:{how}-literal", type_class(t))));
        }
    }
    // FB instance initialisers
    let fb = "FUNCTION_BLOCK F\nVAR_INPUT i : INT; g : REAL; END_VAR\nVAR_OUTPUT q : INT; END_VAR\nVAR PUBLIC v : INT; END_VAR\n    q := q + i;\nEND_FUNCTION_BLOCK\n";
    for (what, decl) in [("inputs", "f : F := (i := 2, g := 1);"), ("member", "f : F := (v := 2);"), ("output", "f : F := (q := 2);")] {
        out.push(pg().pre(fb).var(&format!("{decl} r : DINT;")).body("f();").tags("f", &[(".i", Ty::Int), (".g", Ty::Real), (".q", Ty::Int), (".v", Ty::Int)]).case(format!("agg:init:fb-instance:{what}")));
    }
}

fn agg_instances(out: &mut Vec<Case>) {
    let fb = "FUNCTION_BLOCK F\nVAR_INPUT i : DINT; END_VAR\nVAR_OUTPUT q : DINT; END_VAR\n    q := q + i;\nEND_FUNCTION_BLOCK\n";
    let cl = "CLASS C\nVAR PUBLIC v : DINT; END_VAR\nMETHOD PUBLIC Inc : DINT\n    v := v + 1;\n    Inc := v;\nEND_METHOD\nEND_CLASS\n";
    let sf = "TYPE Sf : STRUCT f : F; n : DINT; END_STRUCT END_TYPE\n";
    let sc = "TYPE Sc : STRUCT c : C; n : DINT; END_STRUCT END_TYPE\n";
    let owner = "FUNCTION_BLOCK Owner\nVAR fs : ARRAY[0..1] OF F; END_VAR\nVAR_OUTPUT q : DINT; END_VAR\n    fs[1](i := 2);\n    q := fs[1].q;\nEND_FUNCTION_BLOCK\n";
    let usearr = "FUNCTION UseArr : DINT\nVAR_IN_OUT fs : ARRAY[0..2] OF F; END_VAR\n    fs[0](i := 1);\n    UseArr := fs[0].q;\nEND_FUNCTION\n";
    // a case names the declarations it needs (one construct the compiler refuses must not make the group vacuous)
    for (feature, needs, decls, body) in [
        ("array-of-instances:fb", vec![fb], "fbs : ARRAY[0..2] OF F;", "fbs[1](i := 2);"),
        ("array-of-instances:fb", vec![fb], "fbs : ARRAY[0..2] OF F;", "fbs[k](i := 2);"),
        ("array-of-instances:fb", vec![fb], "fbs : ARRAY[0..2] OF F; i : DINT;", "FOR i := 0 TO 2 DO fbs[i](i := i); END_FOR;"),
        ("array-of-instances:fb", vec![fb], "fbs : ARRAY[0..1, 0..1] OF F;", "fbs[1, 0](i := 2);"),
        ("array-of-instances:fb", vec![fb], "fbs : ARRAY[0..2] OF F;", "r := fbs[1].q;"),
        ("array-of-instances:fb", vec![fb], "fbs : ARRAY[0..2] OF F;", "fbs[1](i := 2);\nr := fbs[1].q;"),
        ("array-of-instances:fb", vec![fb], "fbs : ARRAY[0..2] OF F;", "fbs[k](i := 1);\nk := k + 5;"),
        ("array-of-instances:fb", vec![fb], "fbs : ARRAY[0..2] OF F;", "r := fbs[k].q;\nk := k + 5;"),
        ("array-of-instances:unused", vec![fb], "fbs : ARRAY[0..2] OF F;", "r := r + 1;"),
        ("array-of-instances:standard-fb", vec![], "ts : ARRAY[0..1] OF TON;", "ts[1](IN := TRUE, PT := T#1s);"),
        ("array-of-instances:fb", vec![fb, owner], "o : Owner;", "o();\nr := o.q;"),
        ("array-of-instances:fb", vec![fb, usearr], "fbs : ARRAY[0..2] OF F;", "r := UseArr(fbs);"),
        ("array-of-instances:class", vec![cl], "cs : ARRAY[0..2] OF C;", "r := cs[1].Inc();"),
        ("array-of-instances:class", vec![cl], "cs : ARRAY[0..2] OF C;", "r := cs[1].v;"),
        ("struct-with-instance-field:fb", vec![fb, sf], "s : Sf;", "s.f(i := 2);\nr := s.f.q;"),
        ("struct-with-instance-field:fb", vec![fb, sf], "s : Sf;", "s.n := 1;"),
        ("struct-with-instance-field:class", vec![cl, sc], "s : Sc;", "r := s.c.Inc();"),
        ("struct-with-instance-field:fb", vec![fb, sf], "ss : ARRAY[0..1] OF Sf;", "ss[1].f(i := 2);"),
    ] {
        out.push(pg().pre(&needs.concat()).var(&format!("{decls} r : DINT; k : DINT := 1;")).body(body).cycles(3).case(format!("agg:{feature}")));
    }
}

fn agg_arrays(out: &mut Vec<Case>, thorough: bool) {
    // 3-D: every corner in range, one step outside per dimension, read and write
    let dims: [(i64, i64); 3] = [(0, 1), (-1, 1), (2, 3)];
    let decl = "a : ARRAY[0..1, -1..1, 2..3] OF DINT; i : DINT; j : DINT; k : DINT; r : DINT;";
    let mut points: Vec<([i64; 3], String)> = Vec::new();
    for c in 0..8u32 {
        if !thorough && c != 0 && c != 7 && c != 5 {
            continue;
        }
        let p = [if c & 1 == 0 { dims[0].0 } else { dims[0].1 }, if c & 2 == 0 { dims[1].0 } else { dims[1].1 }, if c & 4 == 0 { dims[2].0 } else { dims[2].1 }];
        points.push((p, "in-range".into()));
    }
    for d in 0..3 {
        let mut lo = [0, 0, 2];
        lo[d] = dims[d].0 - 1;
        points.push((lo, format!("dimension-{}-below", d + 1)));
        let mut hi = [1, 1, 3];
        hi[d] = dims[d].1 + 1;
        points.push((hi, format!("dimension-{}-above", d + 1)));
    }
    for (p, cls) in &points {
        let set = format!("i := {};\nj := {};\nk := {};", p[0], p[1], p[2]);
        out.push(pg().var(decl).body(&set).body("r := a[i, j, k];").case(format!("agg:array-3d:read:{cls}")));
        out.push(pg().var(decl).body(&set).body("a[i, j, k] := 7;").case(format!("agg:array-3d:write:{cls}")));
        out.push(pg().var(decl).body(&format!("r := a[{}, {}, {}];", p[0], p[1], p[2])).case(format!("agg:array-3d:read-constant-index:{cls}")));
        out.push(pg().var(decl).body(&format!("a[{}, {}, {}] := 7;", p[0], p[1], p[2])).case(format!("agg:array-3d:write-constant-index:{cls}")));
    }
    out.push(pg().var(decl).body("r := a[1, 1];").case("agg:array-3d:too-few-indices"));
    out.push(pg().var(decl).body("r := a[1, 1, 2, 0];").case("agg:array-3d:too-many-indices"));
    out.push(pg().var(decl).body("r := a[1][1][2];").case("agg:array-3d:chained-index-form"));
    out.push(pg().var(decl).body("FOR i := 0 TO 1 DO FOR j := -1 TO 1 DO FOR k := 2 TO 3 DO a[i, j, k] := i + j + k; r := r + a[i, j, k]; END_FOR; END_FOR; END_FOR;").case("agg:array-3d:loop-over-all"));
    // negative lower bounds
    for (shape, ty, lo, hi, two_d) in [("-2..2", "ARRAY[-2..2] OF DINT", -2i64, 2i64, false), ("-5..-3", "ARRAY[-5..-3] OF DINT", -5, -3, false), ("-1..1,-1..1", "ARRAY[-1..1, -1..1] OF DINT", -1, 1, true)] {
        let mut idx = vec![(lo - 1, "below"), (lo, "in-range"), (hi, "in-range"), (hi + 1, "above")];
        if lo < -1 && hi > -1 {
            idx.push((-1, "in-range"));
            idx.push((0, "in-range"));
        }
        for (i, cls) in idx {
            let (ix_var, ix_const, ix_expr) = if two_d { ("k, k".to_string(), format!("{i}, {i}"), format!("0 + {i}, k")) } else { ("k".to_string(), format!("{i}"), "0 + k".to_string()) };
            let decls = format!("a : {ty}; k : DINT := {i}; r : DINT;");
            out.push(pg().var(&decls).body(&format!("r := a[{ix_var}];")).case(format!("agg:array-negative-bounds:{shape}:read:{cls}")));
            out.push(pg().var(&decls).body(&format!("a[{ix_var}] := 7;")).case(format!("agg:array-negative-bounds:{shape}:write:{cls}")));
            out.push(pg().var(&decls).body(&format!("r := a[{ix_const}];\na[{ix_const}] := 7;")).case(format!("agg:array-negative-bounds:{shape}:constant-index:{cls}")));
            out.push(pg().var(&decls).body(&format!("r := a[{ix_expr}];\na[{ix_expr}] := r + 1;")).case(format!("agg:array-negative-bounds:{shape}:expression-index:{cls}")));
        }
        let decls = format!("a : {ty}; k : DINT; r : DINT;");
        if !two_d {
            out.push(pg().var(&decls).body(&format!("FOR k := {lo} TO {hi} DO a[k] := k; r := r + a[k]; END_FOR;")).case(format!("agg:array-negative-bounds:{shape}:loop-over-all")));
            out.push(pg().var(&decls).body(&format!("FOR k := {hi} TO {lo} BY -1 DO a[k] := k; END_FOR;")).case(format!("agg:array-negative-bounds:{shape}:loop-over-all")));
        }
    }
    // index variables of every integer type (and the types the checker may or may not accept)
    let mut its: Vec<&str> = INTS.to_vec();
    its.extend(["BYTE", "WORD", "BOOL", "REAL", "TIME"]);
    for t in its {
        let Some(ty) = elem(t) else { continue };
        let mut vals: Vec<(String, &str)> = vec![(one(t), "in-range")];
        if ty.is_int() {
            vals.push((format!("{t}#3"), "above"));
            vals.push((format!("{t}#{}", if t == "ULINT" { "9223372036854775807".to_string() } else { ty.max().to_string() }), "type-maximum"));
            if ty.is_signed() {
                vals.push((format!("{t}#-1"), "below"));
                if t != "LINT" {
                    vals.push((format!("{t}#{}", ty.min()), "type-minimum"));
                }
            }
        }
        for (v, cls) in vals {
            let decls = format!("a : ARRAY[0..2] OF DINT; m : ARRAY[0..1, 0..2] OF DINT; i : {t} := {v}; r : DINT;");
            out.push(pg().var(&decls).body("r := a[i];").case(format!("agg:index-type:{t}:{cls}")));
            out.push(pg().var(&decls).body("a[i] := 7;").case(format!("agg:index-type:{t}:{cls}")));
            out.push(pg().var(&decls).body("r := m[1, i];\nm[1, i] := 7;").case(format!("agg:index-type:{t}:{cls}")));
        }
    }
    // ULINT index beyond the LINT range (computed: the literal cannot be written)
    out.push(pg().var("a : ARRAY[0..2] OF DINT; i : ULINT; r : DINT;").body("i := ULINT#9223372036854775807 * ULINT#2 + ULINT#1;\nr := a[i];").case("agg:index-type:ULINT:read:beyond-LINT"));
    out.push(pg().var("a : ARRAY[0..2] OF DINT; i : ULINT; r : DINT;").body("i := ULINT#9223372036854775807 + ULINT#1;\na[i] := 1;").case("agg:index-type:ULINT:write:beyond-LINT"));
    // enumeration and subrange as index / bound
    out.push(pg().pre("TYPE Color : (Red, Green, Blue); END_TYPE\n").var("a : ARRAY[0..2] OF DINT; c : Color := Color#Green; r : DINT;").body("r := a[c];\na[c] := 1;").case("agg:index-type:enum"));
    out.push(pg().pre("TYPE Sub : INT(0..2); END_TYPE\n").var("a : ARRAY[0..2] OF DINT; c : Sub := 1; r : DINT;").body("r := a[c];\na[c] := 1;").tag("c", Ty::Int).case("agg:index-type:subrange"));
    out.push(pg().pre("TYPE Sub : INT(0..2); END_TYPE\n").var("a : ARRAY[Sub] OF DINT; r : DINT;").body("r := a[1];").case("agg:bounds:subrange-type-name"));
    out.push(pg().var("a : ARRAY[1..1] OF DINT; r : DINT;").body("a[1] := 2;\nr := a[1];").case("agg:bounds:single-element"));
    out.push(pg().var("a : ARRAY[2..1] OF DINT; r : DINT;").body("r := a[1];").case("agg:bounds:empty-range"));
    out.push(pg().var("a : ARRAY[0..1 + 1] OF DINT; r : DINT;").body("r := a[2];").case("agg:bounds:constant-expression"));
}

/// Aggregates through the parameters and results of functions, FBs and methods.
fn agg_params(out: &mut Vec<Case>) {
    // (type id, declared type, modify statement on `p`, DINT-valued read of `p`)
    let shapes: [(&str, &str, &str, &str); 7] = [
        ("struct", "S3", "p.a := p.a + 1;", "p.a"),
        ("nested-struct", "S1", "p.n := p.n + 1;", "p.y.x.a + p.n + p.arr[1] + p.sa[1].a"),
        ("array", "ARRAY[0..2] OF DINT", "p[1] := p[1] + 1;", "p[1]"),
        ("array-3d", "ARRAY[0..1, 0..1, 0..1] OF DINT", "p[1, 0, 1] := p[1, 0, 1] + 1;", "p[1, 0, 1]"),
        ("array-of-struct", "ARRAY[0..1] OF S3", "p[1] := p[0];", "p[1].a"),
        ("array-negative-bounds", "ARRAY[-1..1] OF DINT", "p[-1] := p[-1] + 1;", "p[-1]"),
        ("string", "STRING[5]", "p := CONCAT(p, 'x');", "LEN(p)"),
    ];
    for (id, ty, modify, read) in shapes {
        let named = format!("TYPE TAgg : {ty}; END_TYPE\n");
        // a named type and the inline spelling (the checker treats inline ARRAY result types differently)
        // parameters of the named type and of the inline spelling (results are always of the named
        // type: the checker mistypes inline ARRAY result types and would reject the whole group)
        let ty_named = "TAgg";
        for (spelling, ty) in [("", ty_named), (":inline-type", ty)] {
        if spelling == ":inline-type" && (id == "struct" || id == "nested-struct") {
            continue;
        }
        let pre = format!(
            "{TYPES_S}{named}FUNCTION FnIn : DINT\nVAR_INPUT p : {ty}; END_VAR\n    FnIn := {read};\nEND_FUNCTION\nFUNCTION FnInCopy : DINT\nVAR_INPUT q : {ty}; END_VAR\nVAR p : {ty}; END_VAR\n    p := q;\n    {modify}\n    FnInCopy := {read};\nEND_FUNCTION\nFUNCTION FnIo : DINT\nVAR_IN_OUT p : {ty}; END_VAR\n    {modify}\n    FnIo := {read};\nEND_FUNCTION\nFUNCTION FnOut : DINT\nVAR_OUTPUT p : {ty}; END_VAR\n    {modify}\n    FnOut := {read};\nEND_FUNCTION\nFUNCTION FnRes : {ty_named}\nVAR_INPUT q : {ty}; END_VAR\nVAR p : {ty}; END_VAR\n    p := q;\n    {modify}\n    FnRes := p;\nEND_FUNCTION\nFUNCTION_BLOCK Fb\nVAR_INPUT p : {ty}; END_VAR\nVAR_OUTPUT q : {ty}; n : DINT; END_VAR\nVAR_IN_OUT io : {ty}; END_VAR\nVAR keep : {ty}; END_VAR\nMETHOD PUBLIC MIn : DINT\nVAR_INPUT p : {ty}; END_VAR\n    keep := p;\n    MIn := {read};\nEND_METHOD\nMETHOD PUBLIC MIo : DINT\nVAR_IN_OUT p : {ty}; END_VAR\n    {modify}\n    MIo := {read};\nEND_METHOD\nMETHOD PUBLIC MOut : DINT\nVAR_OUTPUT p : {ty}; END_VAR\n    {modify}\n    MOut := {read};\nEND_METHOD\nMETHOD PUBLIC MRes : {ty_named}\n    MRes := keep;\nEND_METHOD\n    n := {read};\n    q := p;\n    io := keep;\n    keep := p;\nEND_FUNCTION_BLOCK\n"
        );
        let decls = format!("v : {ty}; w : {ty}; fb : Fb; r : DINT;");
        let member = match id {
            "struct" => ".a",
            "nested-struct" => ".y.x.a",
            "array" | "array-negative-bounds" => "[1]",
            "array-3d" => "[1, 0, 1]",
            "array-of-struct" => "[1].a",
            _ => "",
        };
        let sites: Vec<(&str, String)> = vec![
            ("function:input", "r := FnIn(v);\nr := FnIn(p := v);".into()),
            ("function:input-copied-and-modified", "r := FnInCopy(v);\nr := FnInCopy(q := v);".into()),
            ("function:in-out", "r := FnIo(v);\nr := FnIo(p := v);".into()),
            ("function:output", "r := FnOut(p => v);\nr := FnOut(v);".into()),
            ("function:output-unconnected", "r := FnOut();".into()),
            ("function:result", "w := FnRes(v);\nv := FnRes(q := w);".into()),
            ("function:result-discarded", "FnRes(v);".into()),
            ("function:result-member", if member.is_empty() { "r := LEN(FnRes(v));".into() } else { format!("r := FnRes(v){member};") }),
            ("function:nested-result-as-input", "r := FnIn(FnRes(FnRes(v)));".into()),
            ("fb:input-output", "fb(p := v, q => w, io := v);\nr := fb.n;".into()),
            ("fb:in-out-omitted", "fb(p := v, q => w);\nr := fb.n;".into()),
            ("fb:output-member-external", if member.is_empty() { "fb(p := v, io := w);\nr := LEN(fb.q);".into() } else { format!("fb(p := v, io := w);\nr := fb.q{member};\nr := fb.p{member};") }),
            ("fb:input-member-assigned-external", "fb.p := v;\nfb(io := w);\nw := fb.q;".into()),
            ("fb:output-member-whole", "fb(p := v, io := w);\nw := fb.q;".into()),
            ("method:input", "r := fb.MIn(v);\nr := fb.MIn(p := v);".into()),
            ("method:in-out", "r := fb.MIo(v);\nr := fb.MIo(p := v);".into()),
            ("method:output", "r := fb.MOut(p => v);".into()),
            ("method:result", "r := fb.MIn(v);\nw := fb.MRes();".into()),
            ("method:result-member", if member.is_empty() { "r := LEN(fb.MRes());".into() } else { format!("r := fb.MRes(){member};") }),
        ];
        for (site, body) in sites {
            let mut p = pg().pre(&pre).var(&decls).body(&body).cycles(3);
            match id {
                "struct" => p = p.tags("v", &S3_LEAVES).tags("w", &S3_LEAVES).tags("fb.p", &S3_LEAVES).tags("fb.q", &S3_LEAVES).tags("fb.keep", &S3_LEAVES),
                "nested-struct" => p = p.tags("v", &S1_LEAVES).tags("w", &S1_LEAVES).tags("fb.q", &S1_LEAVES).tags("fb.keep", &S1_LEAVES),
                "array-of-struct" => p = p.tags("v[0]", &S3_LEAVES).tags("v[1]", &S3_LEAVES).tags("w[1]", &S3_LEAVES).tags("fb.q[1]", &S3_LEAVES),
                "array" | "array-negative-bounds" => p = p.tags("fb.q", &[("[0]", Ty::DInt), ("[1]", Ty::DInt), ("[2]", Ty::DInt)]).tags("fb.keep", &[("[0]", Ty::DInt), ("[1]", Ty::DInt), ("[2]", Ty::DInt)]),
                _ => {}
            }
            let idc = match id {
                "array-3d" | "array-negative-bounds" => "array",
                other => other,
            };
            out.push(p.case(format!("agg:param:{site}:{idc}")));
        }
        }
    }
}

fn agg_vla(out: &mut Vec<Case>) {
    // LOWER_BOUND / UPPER_BOUND are not known to the checker today: the programs that use them
    // exist and are rejected; the others index the variable-length array with fixed positions.
    let s3 = "TYPE S3 : STRUCT a : DINT; f : REAL; END_STRUCT END_TYPE\n";
    let f = |name: &str| -> &'static str {
        match name {
            "SumB" => "FUNCTION SumB : DINT\nVAR_IN_OUT a : ARRAY[*] OF DINT; END_VAR\nVAR i : DINT; END_VAR\n    FOR i := LOWER_BOUND(a, 1) TO UPPER_BOUND(a, 1) DO\n        a[i] := a[i] + 1;\n        SumB := SumB + a[i];\n    END_FOR;\nEND_FUNCTION\n",
            "Bound" => "FUNCTION Bound : DINT\nVAR_IN_OUT a : ARRAY[*] OF DINT; END_VAR\nVAR_INPUT d : DINT; up : BOOL; END_VAR\n    IF up THEN Bound := UPPER_BOUND(a, d); ELSE Bound := LOWER_BOUND(a, d); END_IF;\nEND_FUNCTION\n",
            "SumIo" => "FUNCTION SumIo : DINT\nVAR_IN_OUT a : ARRAY[*] OF DINT; END_VAR\n    a[0] := a[0] + 1;\n    SumIo := a[0] + a[1];\nEND_FUNCTION\n",
            "SumIn" => "FUNCTION SumIn : DINT\nVAR_INPUT a : ARRAY[*] OF DINT; END_VAR\n    SumIn := a[0] + a[1];\nEND_FUNCTION\n",
            "Fill" => "FUNCTION Fill : DINT\nVAR_OUTPUT a : ARRAY[*] OF DINT; END_VAR\n    a[0] := 1;\n    Fill := a[1];\nEND_FUNCTION\n",
            "ElemAt" => "FUNCTION ElemAt : DINT\nVAR_IN_OUT a : ARRAY[*] OF DINT; END_VAR\nVAR_INPUT i : DINT; END_VAR\n    a[i] := a[i] + 1;\n    ElemAt := a[i];\nEND_FUNCTION\n",
            "ElemIn" => "FUNCTION ElemIn : DINT\nVAR_INPUT a : ARRAY[*] OF DINT; i : DINT; END_VAR\n    ElemIn := a[i];\nEND_FUNCTION\n",
            "Pass" => "FUNCTION Pass : DINT\nVAR_IN_OUT a : ARRAY[*] OF DINT; END_VAR\n    Pass := SumIo(a) + SumIn(a);\nEND_FUNCTION\n",
            "Sum2" => "FUNCTION Sum2 : DINT\nVAR_IN_OUT a : ARRAY[*, *] OF DINT; END_VAR\nVAR_INPUT i : DINT; j : DINT; END_VAR\n    a[i, j] := a[i, j] + 1;\n    Sum2 := a[i, j];\nEND_FUNCTION\n",
            "SumS" => "FUNCTION SumS : DINT\nVAR_IN_OUT a : ARRAY[*] OF S3; END_VAR\nVAR_INPUT i : DINT; END_VAR\n    SumS := a[i].a;\nEND_FUNCTION\n",
            "LenS" => "FUNCTION LenS : DINT\nVAR_IN_OUT a : ARRAY[*] OF STRING[3]; END_VAR\n    a[0] := CONCAT(a[1], 'x');\n    LenS := LEN(a[0]);\nEND_FUNCTION\n",
            "Copy" => "FUNCTION Copy : DINT\nVAR_IN_OUT a : ARRAY[*] OF DINT; b : ARRAY[*] OF DINT; END_VAR\n    a := b;\n    Copy := a[0];\nEND_FUNCTION\n",
            "ToFixed" => "FUNCTION ToFixed : DINT\nVAR_IN_OUT a : ARRAY[*] OF DINT; END_VAR\nVAR l : ARRAY[0..2] OF DINT; END_VAR\n    l := a;\n    a := l;\n    ToFixed := l[2];\nEND_FUNCTION\n",
            "Fv" => "FUNCTION_BLOCK Fv\nVAR_IN_OUT a : ARRAY[*] OF DINT; END_VAR\nVAR_OUTPUT q : DINT; END_VAR\n    q := a[0] + a[1];\nEND_FUNCTION_BLOCK\n",
            "Fm" => "FUNCTION_BLOCK Fm\nVAR_OUTPUT q : DINT; END_VAR\nMETHOD PUBLIC M : DINT\nVAR_IN_OUT b : ARRAY[*] OF DINT; END_VAR\nVAR_INPUT i : DINT; END_VAR\n    b[i] := b[i] + 1;\n    M := b[i];\nEND_METHOD\n    q := q + 1;\nEND_FUNCTION_BLOCK\n",
            _ => "",
        }
    };
    let decls = "a3 : ARRAY[0..2] OF DINT; an : ARRAY[-2..2] OF DINT; a5 : ARRAY[5..5] OF DINT; m : ARRAY[0..1, -1..1] OF DINT; ss : ARRAY[1..2] OF S3; st : ARRAY[0..1] OF STRING[3]; ai : ARRAY[0..2] OF INT; fv : Fv; fm : Fm; r : DINT; k : DINT := 1;";
    let decls_nofb = decls.replace(" fv : Fv;", "").replace(" fm : Fm;", "");
    for (what, needs, body) in [
        ("bounds:loop-over-bounds", vec!["SumB"], "r := SumB(a3);\nr := SumB(a := an);\nr := SumB(a5);"),
        ("bounds:dimension-1", vec!["Bound"], "r := Bound(a3, 1, TRUE) + Bound(an, 1, FALSE);"),
        ("bounds:dimension-0", vec!["Bound"], "r := Bound(a3, 0, TRUE);"),
        ("bounds:dimension-beyond-rank", vec!["Bound"], "r := Bound(a3, 2, FALSE);"),
        ("bounds:dimension-becomes-invalid-in-cycle-2", vec!["Bound"], "r := Bound(a3, k, TRUE);\nk := k + 1;"),
        ("bounds:on-fixed-array", vec![], "r := UPPER_BOUND(a3, 1) - LOWER_BOUND(an, 1) + UPPER_BOUND(m, 2);"),
        ("bounds:formal-call", vec![], "r := UPPER_BOUND(ARR := a3, DIM := 1);"),
        ("in-out:fixed-index", vec!["SumIo"], "r := SumIo(a3);\nr := SumIo(a := an);"),
        ("in-out:fixed-index-outside-actual", vec!["SumIo"], "r := SumIo(a5);"),
        ("in-out:omitted", vec!["SumIo"], "r := SumIo();"),
        ("input:fixed-index", vec!["SumIn"], "r := SumIn(a3);\nr := SumIn(a := an);"),
        ("slot-without-actual:omitted-input", vec!["SumIn"], "r := SumIn();"),
        ("slot-without-actual:function-output-or-result", vec!["Fill"], "r := Fill(a => a3);\nr := Fill(a => an);"),
        ("slot-without-actual:function-output-or-result", vec!["Fill"], "r := Fill();"),
        ("index:in-range", vec!["ElemAt"], "r := ElemAt(a3, 2);\nr := ElemAt(an, -2);\nr := ElemAt(a5, 5);"),
        ("index:out-of-range", vec!["ElemAt"], "r := ElemAt(an, k);\nk := k + 2;"),
        ("index:out-of-range", vec!["ElemAt"], "r := ElemAt(a5, 4 + k);\nk := k + 1;"),
        ("index:out-of-range", vec!["ElemAt"], "r := ElemAt(an, -1 - k);\nk := k + 1;"),
        ("index:input:in-range", vec!["ElemIn"], "r := ElemIn(a3, 2);\nr := ElemIn(an, -2);"),
        ("index:input:out-of-range", vec!["ElemIn"], "r := ElemIn(an, k);\nk := k + 2;"),
        ("pass-through", vec!["SumIo", "SumIn", "Pass"], "r := Pass(a3);\nr := Pass(an);"),
        ("two-dimensions", vec!["Sum2"], "r := Sum2(m, 1, -1);"),
        ("two-dimensions:index-out-of-range", vec!["Sum2"], "r := Sum2(m, 1, k);\nk := k + 1;"),
        ("two-dimensions:rank-mismatch", vec!["Sum2"], "r := Sum2(a3, 0, 0);"),
        ("one-dimension:rank-mismatch", vec!["SumIo"], "r := SumIo(m);"),
        ("element-type-mismatch", vec!["SumIo"], "r := SumIo(ai);"),
        ("of-structs", vec!["SumS"], "r := SumS(ss, 1);"),
        ("of-structs:index-out-of-range", vec!["SumS"], "r := SumS(ss, k);\nk := k + 2;"),
        ("of-strings", vec!["LenS"], "r := LenS(st);"),
        ("whole-assignment:between-parameters", vec!["Copy"], "r := Copy(a3, a3);\nr := Copy(an, a3);"),
        ("whole-assignment:with-fixed-local", vec!["ToFixed"], "r := ToFixed(a3);"),
        ("whole-assignment:with-fixed-local-other-bounds", vec!["ToFixed"], "r := ToFixed(an);"),
        ("slot-without-actual:fb-parameter", vec!["Fv"], "fv(a := a3);\nr := fv.q;\nfv(a := an);"),
        ("method-in-out", vec!["Fm"], "r := fm.M(a3, 2);\nr := fm.M(b := an, i := -2);"),
        ("method-in-out:index-out-of-range", vec!["Fm"], "r := fm.M(a3, k);\nk := k + 2;"),
    ] {
        let pre: String = std::iter::once(s3).chain(needs.iter().map(|n| f(n))).collect();
        let d = if needs.contains(&"Fv") { decls.replace(" fm : Fm;", "") } else if needs.contains(&"Fm") { decls.replace(" fv : Fv;", "") } else { decls_nofb.clone() };
        let mut p = pg().pre(&pre).var(&d).body(body).cycles(3);
        for i in 0..2 {
            p = p.tags(&format!("ss[{i}]"), &S3_LEAVES);
        }
        out.push(p.case(format!("agg:vla:{what}")));
    }
    // declarations outside a parameter list (a VLA needs an actual argument to take its bounds from)
    for (text_decl, body) in [("v : ARRAY[*] OF DINT; r : DINT;", "r := r + 1;"), ("v : ARRAY[*] OF DINT; r : DINT;", "r := v[0];")] {
        out.push(pg().var(text_decl).body(body).case("agg:vla:slot-without-actual:variable"));
    }
    out.push(pg().pre("FUNCTION F : DINT\nVAR v : ARRAY[*] OF DINT; END_VAR\n    F := v[0];\nEND_FUNCTION\n").var("r : DINT;").body("r := F();").case("agg:vla:slot-without-actual:variable"));
    out.push(pg().pre("FUNCTION_BLOCK Fb\nVAR v : ARRAY[*] OF DINT; END_VAR\nVAR_OUTPUT q : DINT; END_VAR\n    q := q + 1;\nEND_FUNCTION_BLOCK\n").var("f : Fb; r : DINT;").body("f();").case("agg:vla:slot-without-actual:variable"));
    out.push(pg().pre("TYPE Sv : STRUCT v : ARRAY[*] OF DINT; END_STRUCT END_TYPE\n").var("s : Sv; r : DINT;").body("r := r + 1;").case("agg:vla:slot-without-actual:variable"));
    out.push(pg().pre("FUNCTION_BLOCK Fb\nVAR_INPUT v : ARRAY[*] OF DINT; END_VAR\nVAR_OUTPUT q : DINT; END_VAR\n    q := v[0];\nEND_FUNCTION_BLOCK\n").var("f : Fb; a : ARRAY[0..2] OF DINT; r : DINT;").body("f(v := a);\nr := f.q;").case("agg:vla:slot-without-actual:fb-parameter"));
    out.push(pg().pre("FUNCTION_BLOCK Fb\nVAR_INPUT v : ARRAY[*] OF DINT; END_VAR\nVAR_OUTPUT q : DINT; END_VAR\n    q := q + 1;\nEND_FUNCTION_BLOCK\n").var("f : Fb; r : DINT;").body("f();").case("agg:vla:slot-without-actual:fb-parameter"));
    out.push(pg().pre("FUNCTION_BLOCK Fb\nVAR_OUTPUT v : ARRAY[*] OF DINT; END_VAR\n    v[0] := 1;\nEND_FUNCTION_BLOCK\n").var("f : Fb; a : ARRAY[0..2] OF DINT; r : DINT;").body("f(v => a);").case("agg:vla:slot-without-actual:fb-parameter"));
    out.push(pg().pre("TYPE Tv : ARRAY[*] OF DINT; END_TYPE\nFUNCTION F : Tv\nVAR_IN_OUT a : Tv; END_VAR\n    F := a;\nEND_FUNCTION\n").var("a : ARRAY[0..2] OF DINT; b : ARRAY[0..2] OF DINT; r : DINT;").body("b := F(a);").case("agg:vla:slot-without-actual:function-output-or-result"));
}

fn agg_strings(out: &mut Vec<Case>) {
    let types = "TYPE St : STRUCT s : STRING[3]; w : WSTRING[3]; n : DINT; END_STRUCT END_TYPE\n";
    for (what, body) in [
        ("struct-field:assign", "st.s := 'ab';\nst.w := \"ab\";\nr := LEN(st.s) + LEN(st.w);"),
        ("struct-field:assign-too-long", "st.s := 'abcdef';\nst.w := \"abcdef\";\nr := LEN(st.s) + LEN(st.w);"),
        ("struct-field:grows-each-cycle", "st.s := CONCAT(st.s, 'ab');\nr := LEN(st.s);"),
        ("struct-field:from-longer-variable", "st.s := long;\nr := LEN(st.s);"),
        ("array-element:assign", "sa[1] := 'ab';\nsa[k] := sa[1];\nr := LEN(sa[1]);"),
        ("array-element:assign-too-long", "sa[1] := 'abcdef';\nr := LEN(sa[1]);"),
        ("array-element:grows-each-cycle", "sa[1] := CONCAT(sa[1], 'ab');\nr := LEN(sa[1]);"),
        ("array-element:index-out-of-range", "sa[k] := 'a';\nk := k + 5;"),
        ("array-element:as-function-argument", "sa[0] := 'abc';\nsa[1] := LEFT(sa[0], 2);\nr := FIND(sa[0], sa[1]);"),
        ("array-of-struct:field", "ss[1] := st;\nr := LEN(ss[1].s);"),
        ("whole-copy", "st.s := 'ab';\nst2 := st;\nsb := sa;\nr := LEN(st2.s);"),
        ("compare", "ok := st.s = sa[1];\nok := sa[0] < sa[1];\nok := st.s <> 'ab';"),
        ("wide-array", "wa[1] := \"ab\";\nwa[0] := CONCAT(wa[1], \"cdef\");\nr := LEN(wa[0]);"),
        ("default-length-in-struct", "sd.s := 'abc';\nsd.s := CONCAT(sd.s, sd.s);\nr := LEN(sd.s);"),
    ] {
        out.push(
            pg().pre(types)
                .pre("TYPE Sd : STRUCT s : STRING; END_STRUCT END_TYPE\n")
                .var("st : St; st2 : St; sd : Sd; sa : ARRAY[0..1] OF STRING[3]; sb : ARRAY[0..1] OF STRING[3]; wa : ARRAY[0..1] OF WSTRING[3]; ss : ARRAY[0..1] OF St; long : STRING[10] := 'abcdefgh'; r : DINT; k : DINT := 1; ok : BOOL;")
                .body(body)
                .tag("st.n", Ty::DInt)
                .cycles(3)
                .case(format!("agg:string:{what}")),
        );
    }
}

/// `x / z` (z = 0 from cycle 2) inside the aggregate constructs.
fn agg_faults(out: &mut Vec<Case>) {
    let pre = format!(
        "{TYPES_S}FUNCTION MkS3 : S3\nVAR_INPUT d : DINT; END_VAR\nVAR v : S3; END_VAR\n    v.a := 10 / d;\n    MkS3 := v;\nEND_FUNCTION\nFUNCTION FnIo : DINT\nVAR_IN_OUT p : S3; END_VAR\nVAR_INPUT d : DINT; END_VAR\n    p.a := p.a + 1;\n    FnIo := 10 / d;\nEND_FUNCTION\nFUNCTION FnOut : DINT\nVAR_OUTPUT p : ARRAY[0..2] OF DINT; END_VAR\nVAR_INPUT d : DINT; END_VAR\n    p[1] := 1;\n    FnOut := 10 / d;\nEND_FUNCTION\nFUNCTION FnVla : DINT\nVAR_IN_OUT a : ARRAY[*] OF DINT; END_VAR\nVAR_INPUT d : DINT; END_VAR\nVAR i : DINT; END_VAR\n    FOR i := 0 TO 2 DO\n        a[i] := 10 / d;\n    END_FOR;\n    FnVla := i;\nEND_FUNCTION\nFUNCTION_BLOCK Fb\nVAR_INPUT p : S3; d : DINT := 1; END_VAR\nVAR_OUTPUT q : S3; END_VAR\n    q := p;\n    q.a := 10 / d;\nEND_FUNCTION_BLOCK\n"
    );
    for (site, stmt) in [
        ("nested-path-index:read", "r := s1.arr[2 / z];"),
        ("nested-path-index:write", "a1[2 / z] := 1;"),
        ("array-of-struct-index", "r := as1[1 / z].n;"),
        ("array-of-arrays-index", "r := aa[1 / z][2 / z];"),
        ("array-3d-index", "r := a3[1, 1 / z, 0];\na3[1 / z, 0, 0] := 1;"),
        ("struct-field-value", "s3.a := 10 / z;"),
        ("array-element-struct-value", "sa[1] := MkS3(z);"),
        ("whole-struct-from-function", "t3 := MkS3(z);"),
        ("function-result-member", "r := MkS3(z).a;"),
        ("function-with-struct-in-out", "r := FnIo(s3, z);"),
        ("function-with-array-output", "r := FnOut(p => a1, d := z);"),
        ("function-with-vla", "r := FnVla(a1, z);"),
        ("fb-with-struct-input-output", "fb(p := s3, d := z, q => t3);"),
        ("fb-struct-argument-from-function", "fb(p := MkS3(z));"),
        ("string-field-function-argument", "s1.s := 'abcd';\ns1.s := LEFT(s1.s, 10 / z);"),
        ("aggregate-comparison-operand", "ok := MkS3(z) = s3;"),
    ] {
        out.push(agg_vars(pg()).pre(&pre[TYPES_S.len()..]).var("z : DINT := 1; fb : Fb;").body(stmt).body("z := 0;").cycles(3).case(format!("fault:agg:{site}")));
    }
}

// ---------------------------------------------------------------------------------------------
// 3. remaining declaration and statement forms
// ---------------------------------------------------------------------------------------------

fn form_constants(out: &mut Vec<Case>) {
    // where the constant is declared x how it is used
    let uses: [(&str, &str, &str); 12] = [
        ("expression", "", "r := N + 1;"),
        ("array-bound", "arr : ARRAY[0..N] OF DINT;", "arr[N] := 1;\nr := arr[N];"),
        ("array-bound-expression", "arr : ARRAY[0..N + 1] OF DINT;", "arr[N + 1] := 1;"),
        ("for-bound", "i : DINT;", "FOR i := 0 TO N DO r := r + 1; END_FOR;"),
        ("case-label", "", "CASE r OF N: r := 1; ELSE r := N; END_CASE;"),
        ("case-range", "", "CASE r OF 0..N: r := r + 1; ELSE r := 0; END_CASE;"),
        ("subrange-bound", "s : DINT(0..N);", "s := N;"),
        ("string-length", "str : STRING[N];", "str := 'abcdef';\nr := LEN(str);"),
        ("initialiser-of-variable", "x : DINT := N;", "r := x;"),
        ("initialiser-expression", "x : DINT := N * 2 + 1;", "r := x;"),
        ("index", "arr : ARRAY[0..5] OF DINT;", "arr[N] := 1;\nr := arr[N];"),
        ("call-argument", "", "r := MAX(N, 1);"),
    ];
    for (use_id, decl, body) in uses {
        // program constant
        out.push(pg().block("VAR CONSTANT", "N : DINT := 3;").var(&format!("{decl} r : DINT;")).body(body).case(format!("form:constant:program:{use_id}")));
        // constant declared after its use
        out.push(pg().var(&format!("{decl} r : DINT;")).block("VAR CONSTANT", "N : DINT := 3;").body(body).case(format!("form:constant:program-declared-later:{use_id}")));
        // global constant (configuration), declared external
        out.push(
            pg().block("VAR_EXTERNAL CONSTANT", "N : DINT;")
                .var(&format!("{decl} r : DINT;"))
                .body(body)
                .post("CONFIGURATION Conf\nVAR_GLOBAL CONSTANT N : DINT := 3; END_VAR\nPROGRAM Main : Main;\nEND_CONFIGURATION\n")
                .case(format!("form:constant:global:{use_id}")),
        );
        // inside a function block and a function
        let d = decl.replace("arr :", "arr :").to_string();
        let fb = format!("FUNCTION_BLOCK F\nVAR CONSTANT N : DINT := 3; END_VAR\nVAR {d} r : DINT; END_VAR\nVAR_OUTPUT q : DINT; END_VAR\n    {}\n    q := r;\nEND_FUNCTION_BLOCK\n", body.replace('\n', "\n    "));
        out.push(pg().pre(&fb).var("f : F; r : DINT;").body("f();\nr := f.q;").tag("f.q", Ty::DInt).tag("f.r", Ty::DInt).case(format!("form:constant:fb:{use_id}")));
        let fun = format!("FUNCTION Fn : DINT\nVAR CONSTANT N : DINT := 3; END_VAR\nVAR {d} r : DINT; END_VAR\n    {}\n    Fn := r;\nEND_FUNCTION\n", body.replace('\n', "\n    "));
        out.push(pg().pre(&fun).var("r : DINT;").body("r := Fn();").case(format!("form:constant:function:{use_id}")));
    }
    // constants of every elementary type: typed and untyped initialiser (C03: declared tag)
    for t in ELEM {
        let untyped = match t {
            "BOOL" => "TRUE",
            "REAL" | "LREAL" => "2",
            "TIME" => "T#1s",
            "BYTE" | "WORD" | "DWORD" | "LWORD" => "16#F",
            _ => "5",
        };
        for (how, init) in [("untyped", untyped.to_string()), ("typed", one(t))] {
            out.push(pg().block("VAR CONSTANT", &format!("c : {t} := {init};")).var(&format!("v : {t};")).body("v := c;").case(format!("form:constant:type:{}:{how}-literal", type_class(t))));
        }
    }
    // constant aggregates, constant from constant, written constant (refused)
    out.push(pg().block("VAR CONSTANT", "N : DINT := 3; M : DINT := N * 2;").var("r : DINT; arr : ARRAY[0..M] OF DINT;").body("r := M;\narr[M] := 1;").case("form:constant:constant-from-constant"));
    out.push(pg().block("VAR CONSTANT", "N : DINT := 3;").var("r : DINT;").body("N := 4;").case("form:constant:written"));
    out.push(pg().block("VAR CONSTANT", "N : DINT;").var("r : DINT;").body("r := N;").case("form:constant:without-initialiser"));
    out.push(pg().pre("TYPE Color : (Red, Green, Blue); END_TYPE\n").block("VAR CONSTANT", "C : Color := Color#Green;").var("c2 : Color; r : DINT;").body("c2 := C;\nCASE c2 OF Color#Green: r := 1; END_CASE;").case("form:constant:enum"));
}

fn form_var_sections(out: &mut Vec<Case>) {
    // VAR_TEMP: scope x shape
    let shapes: [(&str, &str, &str); 8] = [
        ("no-initialiser", "t : DINT;", "t := t + 1;\n    q := q + t;"),
        ("literal-initialiser", "t : DINT := 5;", "t := t + 1;\n    q := q + t;"),
        ("typed-int-initialiser", "t : INT := INT#5;", "t := t + INT#1;\n    q := q + t;"),
        ("untyped-int-initialiser", "t : INT := 5;", "q := q + t;"),
        ("expression-initialiser", "t : DINT := 2 * 3 + 1;", "q := q + t;"),
        ("array", "t : ARRAY[0..2] OF DINT;", "t[1] := t[1] + 1;\n    q := q + t[1];"),
        ("string", "t : STRING[4];", "t := CONCAT(t, 'ab');\n    q := q + LEN(t);"),
        ("two-blocks", "t : DINT; END_VAR\nVAR_TEMP u : DINT := 2;", "t := t + u;\n    q := q + t;"),
    ];
    for (shape, decl, stmts) in shapes {
        out.push(pg().block("VAR_TEMP", decl).var("q : DINT;").body(&stmts.replace("\n    ", "\n")).cycles(3).case(format!("form:var-temp:program:{shape}")));
        let fb = format!("FUNCTION_BLOCK F\nVAR_TEMP {decl} END_VAR\nVAR_OUTPUT q : DINT; END_VAR\n    {stmts}\nEND_FUNCTION_BLOCK\n");
        out.push(pg().pre(&fb).var("f : F; r : DINT;").body("f();\nf();\nr := f.q;").tag("f.q", Ty::DInt).cycles(3).case(format!("form:var-temp:fb:{shape}")));
        let fun = format!("FUNCTION Fn : DINT\nVAR_TEMP {decl} END_VAR\nVAR q : DINT; END_VAR\n    {stmts}\n    Fn := q;\nEND_FUNCTION\n");
        out.push(pg().pre(&fun).var("r : DINT;").body("r := Fn() + Fn();").cycles(3).case(format!("form:var-temp:function:{shape}")));
        let me = format!("FUNCTION_BLOCK F\nVAR q : DINT; END_VAR\nMETHOD PUBLIC M : DINT\nVAR_TEMP {decl} END_VAR\n    {stmts}\n    M := q;\nEND_METHOD\nEND_FUNCTION_BLOCK\n");
        out.push(pg().pre(&me).var("f : F; r : DINT;").body("r := f.M() + f.M();").tag("f.q", Ty::DInt).cycles(3).case(format!("form:var-temp:method:{shape}")));
        let cl = format!("CLASS F\nVAR q : DINT; END_VAR\nVAR_TEMP {decl} END_VAR\nMETHOD PUBLIC M : DINT\n    {stmts}\n    M := q;\nEND_METHOD\nEND_CLASS\n");
        out.push(pg().pre(&cl).var("f : F; r : DINT;").body("r := f.M();").cycles(3).case(format!("form:var-temp:class-level:{shape}")));
    }
    out.push(pg().var("r : DINT;").block("VAR_INPUT", "i : INT := INT#2;").block("VAR_OUTPUT", "o : INT;").body("o := o + i;\nr := o;").cycles(3).case("form:declaration:program-input-output"));
    out.push(pg().var("r : DINT;").block("VAR_INPUT", "i : INT := 2;").block("VAR_OUTPUT", "o : INT := 1;").body("r := o + i;").cycles(3).case("form:declaration:program-input-output:untyped-initialiser"));
    out.push(pg().var("r : DINT;").block("VAR_IN_OUT", "io : DINT;").body("io := io + 1;\nr := io;").cycles(3).case("form:declaration:program-in-out"));
    // FB instance as a temporary
    let inner = "FUNCTION_BLOCK Inner\nVAR_INPUT i : DINT; END_VAR\nVAR_OUTPUT q : DINT; END_VAR\n    q := q + i;\nEND_FUNCTION_BLOCK\n";
    out.push(pg().pre(inner).block("VAR_TEMP", "t : Inner;").var("r : DINT;").body("t(i := 2);\nr := t.q;").cycles(3).case("form:var-temp:program:fb-instance"));
    out.push(pg().pre(inner).pre("FUNCTION_BLOCK F\nVAR_TEMP t : Inner; END_VAR\nVAR_OUTPUT q : DINT; END_VAR\n    t(i := 2);\n    q := q + t.q;\nEND_FUNCTION_BLOCK\n").var("f : F; r : DINT;").body("f();\nr := f.q;").cycles(3).case("form:var-temp:fb:fb-instance"));
    out.push(pg().pre(inner).pre("FUNCTION Fn : DINT\nVAR t : Inner; END_VAR\n    t(i := 2);\n    t(i := 3);\n    Fn := t.q;\nEND_FUNCTION\n").var("r : DINT;").body("r := Fn();").cycles(3).case("form:var-temp:function:fb-instance"));
    // RETAIN / PERSISTENT / NON_RETAIN qualifiers
    for q in ["RETAIN", "PERSISTENT", "NON_RETAIN", "RETAIN PERSISTENT"] {
        let qid = q.to_ascii_lowercase().replace(' ', "+");
        out.push(pg().block(&format!("VAR {q}"), "n : DINT := 1; a : ARRAY[0..1] OF INT; w : WORD;").var("r : DINT;").body("n := n + 1;\na[1] := a[1] + INT#1;\nw := WORD#16#1;\nr := n;").cycles(3).case(format!("form:retain:{qid}:program")));
        let fb = format!("FUNCTION_BLOCK F\nVAR {q} n : DINT := 1; END_VAR\nVAR_INPUT {q} i : DINT; END_VAR\nVAR_OUTPUT {q} q : DINT; END_VAR\n    n := n + i;\n    q := n;\nEND_FUNCTION_BLOCK\n");
        out.push(pg().pre(&fb).var("f : F; r : DINT;").body("f(i := 2);\nr := f.q;").tags("f", &[(".n", Ty::DInt), (".i", Ty::DInt), (".q", Ty::DInt)]).cycles(3).case(format!("form:retain:{qid}:fb")));
        let fb = format!("FUNCTION_BLOCK F\nVAR {q} n : DINT := 1; END_VAR\nVAR_OUTPUT q : DINT; END_VAR\n    n := n + 1;\n    q := n;\nEND_FUNCTION_BLOCK\n");
        out.push(pg().pre(&fb).var("f : F; r : DINT;").body("f();\nr := f.q;").tags("f", &[(".n", Ty::DInt), (".q", Ty::DInt)]).cycles(3).case(format!("form:retain:{qid}:fb-var-only")));
        out.push(pg().pre(&fb).block(&format!("VAR {q}"), "f : F;").var("r : DINT;").body("f();\nr := f.q;").cycles(3).case(format!("form:retain:{qid}:fb-instance")));
        let cl = format!("CLASS C\nVAR {q} n : DINT := 1; END_VAR\nMETHOD PUBLIC M : DINT\n    n := n + 1;\n    M := n;\nEND_METHOD\nEND_CLASS\n");
        out.push(pg().pre(&cl).var("c : C; r : DINT;").body("r := c.M();").cycles(3).case(format!("form:retain:{qid}:class")));
        let fun = format!("FUNCTION Fn : DINT\nVAR {q} n : DINT := 1; END_VAR\n    n := n + 1;\n    Fn := n;\nEND_FUNCTION\n");
        out.push(pg().pre(&fun).var("r : DINT;").body("r := Fn();").cycles(3).case(format!("form:retain:{qid}:function")));
        out.push(
            pg().block("VAR_EXTERNAL", "g : DINT;")
                .var("r : DINT;")
                .body("g := g + 1;\nr := g;")
                .post(&format!("CONFIGURATION Conf\nVAR_GLOBAL {q} g : DINT := 1; END_VAR\nPROGRAM Main : Main;\nEND_CONFIGURATION\n"))
                .cycles(3)
                .case(format!("form:retain:{qid}:global")),
        );
    }
    // other declaration forms
    for (what, pre, decls, body) in [
        ("several-names-with-initialiser", "", "a, b, c : INT := INT#4; r : DINT;", "a := a + b;\nr := c;"),
        ("several-names-untyped-initialiser", "", "a, b : INT := 4; x, y : REAL := 2; r : DINT;", "r := a + b;"),
        ("alias-of-struct", "TYPE S : STRUCT a : DINT; END_STRUCT END_TYPE\nTYPE T : S; END_TYPE\n", "v : T; r : DINT;", "v.a := 2;\nr := v.a;"),
        ("alias-of-array", "TYPE A : ARRAY[0..2] OF INT; END_TYPE\nTYPE T : A; END_TYPE\n", "v : T; r : DINT;", "v[1] := INT#2;\nr := v[1];"),
        ("alias-of-fb", "FUNCTION_BLOCK F\nVAR_OUTPUT q : DINT; END_VAR\n    q := q + 1;\nEND_FUNCTION_BLOCK\nTYPE T : F; END_TYPE\n", "v : T; r : DINT;", "v();\nr := v.q;"),
        ("alias-of-alias-of-int", "TYPE A : INT; END_TYPE\nTYPE B : A; END_TYPE\n", "v : B := 3; w : B; r : DINT;", "w := v;\nr := w;"),
        ("enum-with-values-and-base-type", "TYPE E : INT (A := 1, B := 5); END_TYPE\n", "e : E; r : DINT;", "e := E#B;\nCASE e OF E#A: r := 1; E#B: r := 2; END_CASE;"),
        ("enum-default-value", "TYPE E : (A, B, C) := B; END_TYPE\n", "e : E; r : DINT;", "IF e = E#B THEN r := 1; END_IF;"),
        ("union", "TYPE U : UNION d : DINT; r : REAL; END_UNION END_TYPE\n", "u : U; r : DINT;", "u.d := 5;\nr := u.d;"),
        ("union-reinterpret", "TYPE U : UNION d : DINT; w : DWORD; END_UNION END_TYPE\n", "u : U; r : DINT; x : DWORD;", "u.d := 5;\nx := u.w;"),
        ("pointer-to", "", "p : POINTER TO DINT; v : DINT; r : DINT;", "p := ADR(v);\np^ := 3;\nr := p^;"),
        ("pointer-null", "", "p : POINTER TO DINT; r : DINT;", "r := p^;"),
        
        ("var-stat", "FUNCTION_BLOCK F\nVAR_STAT n : DINT; END_VAR\nVAR_OUTPUT q : DINT; END_VAR\n    n := n + 1;\n    q := n;\nEND_FUNCTION_BLOCK\n", "f : F; g : F; r : DINT;", "f();\ng();\nr := g.q;"),
        ("nested-comments", "", "r : DINT;", "(* outer (* inner *) still outer *) r := r + 1; // line\n/* block */ r := r + 1;"),
        ("pragma", "", "r : DINT;", "{attribute 'x'} r := r + 1;"),
        ("lower-case-keywords", "", "r : DINT; i : DINT;", "if r = 0 then r := 1; elsif r = 1 then r := 2; else r := 3; end_if;\nfor i := 0 to 2 do r := r + 1; end_for;\ncase r of 1: r := 2; else r := 3; end_case;\nwhile r < 0 do r := r + 1; end_while;\nrepeat r := r + 1; until r > 0 end_repeat;"),
        ("identifier-case:variable-read", "", "Counter : DINT; r : DINT;", "r := COUNTER;"),
        ("identifier-case:variable-write", "", "Counter : DINT; r : DINT;", "counter := 1;\nr := Counter;"),
        ("identifier-case:function-name", "FUNCTION Twice : DINT\nVAR_INPUT a : DINT; END_VAR\n    Twice := a * 2;\nEND_FUNCTION\n", "r : DINT;", "r := TWICE(2);\nr := twice(a := r);"),
        ("identifier-case:function-result-name", "FUNCTION Twice : DINT\nVAR_INPUT a : DINT; END_VAR\n    TWICE := a * 2;\nEND_FUNCTION\n", "r : DINT;", "r := Twice(2);"),
        ("identifier-case:type-name", "TYPE Pt : STRUCT a : DINT; END_STRUCT END_TYPE\n", "v : PT; r : dint;", "v.a := 1;\nr := v.a;"),
        ("identifier-case:field-name", "TYPE Pt : STRUCT a : DINT; END_STRUCT END_TYPE\n", "v : Pt; r : DINT;", "v.A := 1;\nr := v.A;"),
        ("identifier-case:fb-member-and-parameter", "FUNCTION_BLOCK F\nVAR_INPUT i : DINT; END_VAR\nVAR_OUTPUT q : DINT; END_VAR\n    Q := q + I;\nEND_FUNCTION_BLOCK\n", "f : F; r : DINT;", "F(I := 2);\nr := f.Q;"),
        ("identifier-case:method-name", "FUNCTION_BLOCK F\nVAR v : DINT; END_VAR\nMETHOD PUBLIC Inc : DINT\n    V := v + 1;\n    INC := v;\nEND_METHOD\nEND_FUNCTION_BLOCK\n", "f : F; r : DINT;", "r := f.INC();"),
        ("identifier-case:enum-value", "TYPE Color : (Red, Green); END_TYPE\n", "c : Color; r : DINT;", "c := COLOR#GREEN;\nCASE c OF color#green: r := 1; END_CASE;"),
        ("identifier-case:for-control", "", "i : DINT; r : DINT;", "FOR I := 0 TO 2 DO r := r + i; END_FOR;"),
        ("identifier-case:label", "", "r : DINT;", "JMP done;\nr := 1;\nDONE: r := r + 2;"),
        ("located-and-initialised", "", "m AT %MW0 : INT := INT#3; r : DINT;", "m := m + INT#1;\nr := m;"),
    ] {
        out.push(pg().pre(pre).var(decls).body(body).cycles(3).case(format!("form:declaration:{what}")));
    }
}

fn form_globals(out: &mut Vec<Case>) {
    // where the global is declared x who uses it x type of the global
    let types: [(&str, &str, &str, &str); 7] = [
        ("dint", "DINT", "g := g + 1;", "g"),
        ("int-untyped-initialiser", "INT := 5", "g := g + INT#1;", "g"),
        ("real-untyped-initialiser", "REAL := 2", "g := g + REAL#1.0;", "TRUNC(g)"),
        ("array", "ARRAY[0..2] OF DINT", "g[1] := g[1] + 1;", "g[1]"),
        ("struct", "Sg", "g.a := g.a + 1;", "g.a"),
        ("string", "STRING[4]", "g := CONCAT(g, 'a');", "LEN(g)"),
        ("fb-instance", "Fg", "g(i := 2);", "g.q"),
    ];
    let common = "TYPE Sg : STRUCT a : DINT; b : INT; END_STRUCT END_TYPE\nFUNCTION_BLOCK Fg\nVAR_INPUT i : DINT; END_VAR\nVAR_OUTPUT q : DINT; END_VAR\n    q := q + i;\nEND_FUNCTION_BLOCK\n";
    for (tid, ty, modify, read) in types {
        let ty_plain = ty.split(" :=").next().unwrap_or(ty);
        // users
        let users: [(&str, String, &str, String); 6] = [
            ("program", String::new(), "VAR_EXTERNAL", format!("{modify}\nr := {read};")),
            ("program-undeclared", String::new(), "", format!("{modify}\nr := {read};")),
            (
                "function",
                format!("FUNCTION UseG : DINT\nVAR_EXTERNAL g : {ty_plain}; END_VAR\n    {modify}\n    UseG := {read};\nEND_FUNCTION\n"),
                "",
                "r := UseG();".to_string(),
            ),
            (
                "fb",
                format!("FUNCTION_BLOCK UseG\nVAR_EXTERNAL g : {ty_plain}; END_VAR\nVAR_OUTPUT o : DINT; END_VAR\n    {modify}\n    o := {read};\nEND_FUNCTION_BLOCK\n"),
                "u : UseG;",
                "u();\nr := u.o;".to_string(),
            ),
            (
                "method",
                format!("FUNCTION_BLOCK UseG\nMETHOD PUBLIC M : DINT\nVAR_EXTERNAL g : {ty_plain}; END_VAR\n    {modify}\n    M := {read};\nEND_METHOD\nEND_FUNCTION_BLOCK\n"),
                "u : UseG;",
                "r := u.M();".to_string(),
            ),
            (
                "function-undeclared",
                format!("FUNCTION UseG : DINT\n    {modify}\n    UseG := {read};\nEND_FUNCTION\n"),
                "",
                "r := UseG();".to_string(),
            ),
        ];
        for (user, pou, decl, body) in users {
            // placements of the VAR_GLOBAL block
            let placements: [(&str, String, String, bool); 5] = [
                ("configuration", String::new(), format!("CONFIGURATION Conf\nVAR_GLOBAL g : {ty}; END_VAR\nPROGRAM Main : Main;\nEND_CONFIGURATION\n"), false),
                ("resource", String::new(), format!("CONFIGURATION Conf\nRESOURCE Res ON PLC\nVAR_GLOBAL g : {ty}; END_VAR\nPROGRAM Main : Main;\nEND_RESOURCE\nEND_CONFIGURATION\n"), false),
                ("configuration-with-task", String::new(), format!("CONFIGURATION Conf\nVAR_GLOBAL g : {ty}; END_VAR\nTASK T1 (INTERVAL := T#10ms, PRIORITY := 1);\nPROGRAM Main WITH T1 : Main;\nEND_CONFIGURATION\n"), false),
                ("top-level-block", format!("VAR_GLOBAL g : {ty}; END_VAR\n"), String::new(), false),
                ("in-program", String::new(), String::new(), true),
            ];
            for (place, before, after, in_program) in placements {
                let mut p = pg().pre(common).pre(&before).pre(&pou);
                if in_program {
                    p = p.block("VAR_GLOBAL", &format!("g : {ty};"));
                }
                if decl == "VAR_EXTERNAL" {
                    if in_program {
                        continue;
                    }
                    p = p.block("VAR_EXTERNAL", &format!("g : {ty_plain};"));
                    p = p.var("r : DINT;");
                } else {
                    p = p.var(&format!("{decl} r : DINT;"));
                }
                let tcl = match tid {
                    "fb-instance" => "fb-instance",
                    "array" | "struct" | "string" => "aggregate",
                    "dint" => "dint",
                    _ => "untyped-initialiser",
                };
                out.push(p.body(&body).post(&after).cycles(3).case(format!("form:global:{place}:{user}:{tcl}")));
            }
        }
    }
    // two programs sharing one global; a local that hides a global; external of another type
    out.push(
        pg().block("VAR_EXTERNAL", "g : DINT;")
            .var("r : DINT;")
            .body("g := g + 1;\nr := g;")
            .post("PROGRAM Other\nVAR_EXTERNAL g : DINT; END_VAR\nVAR r : DINT; END_VAR\n    g := g * 2;\n    r := g;\nEND_PROGRAM\nCONFIGURATION Conf\nVAR_GLOBAL g : DINT := 1; END_VAR\nPROGRAM Main : Main;\nPROGRAM P2 : Other;\nEND_CONFIGURATION\n")
            .cycles(3)
            .case("form:global:two-programs"),
    );
    out.push(pg().var("g : DINT := 7; r : DINT;").body("g := g + 1;\nr := g;").post("CONFIGURATION Conf\nVAR_GLOBAL g : DINT := 1; END_VAR\nPROGRAM Main : Main;\nEND_CONFIGURATION\n").cycles(3).case("form:global:hidden-by-local"));
    out.push(pg().block("VAR_EXTERNAL", "g : INT;").var("r : DINT;").body("g := g + INT#1;\nr := g;").post("CONFIGURATION Conf\nVAR_GLOBAL g : DINT := 1; END_VAR\nPROGRAM Main : Main;\nEND_CONFIGURATION\n").cycles(3).case("form:global:external-of-other-type"));
    out.push(pg().block("VAR_EXTERNAL", "g : DINT;").var("r : DINT;").body("r := g;").cycles(3).case("form:global:external-without-global"));
    // two instances of one program
    out.push(pg().var("n : DINT; r : DINT;").body("n := n + 1;\nr := n;").post("CONFIGURATION Conf\nPROGRAM Main : Main;\nPROGRAM P2 : Main;\nEND_CONFIGURATION\n").cycles(3).case("form:configuration:two-instances-of-one-program"));
    // VAR_ACCESS
    let main_vars = "x : DINT; arr : ARRAY[0..2] OF DINT; st : Sg; w : WORD; r : DINT;";
    for (target, path, ty, write, read) in [
        ("variable", "Main.x", "DINT", "A1 := A1 + 1;", "A1"),
        ("array-element", "Main.arr[1]", "DINT", "A1 := A1 + 1;", "A1"),
        ("struct-field", "Main.st.a", "DINT", "A1 := A1 + 1;", "A1"),
        ("struct-int-field-untyped", "Main.st.b", "INT", "A1 := 5;", "A1"),
        ("whole-array", "Main.arr", "ARRAY[0..2] OF DINT", "A1[1] := A1[1] + 1;", "A1[1]"),
        ("whole-struct", "Main.st", "Sg", "A1.a := A1.a + 1;", "A1.a"),
        ("bit-of-word", "Main.w.%X1", "BOOL", "A1 := TRUE;", "BOOL_TO_DINT(A1)"),
        ("bit-of-word-beyond-width", "Main.w.%X16", "BOOL", "A1 := TRUE;", "BOOL_TO_DINT(A1)"),
        ("global", "g", "DINT", "A1 := A1 + 1;", "A1"),
        ("array-element-out-of-range", "Main.arr[5]", "DINT", "A1 := A1 + 1;", "A1"),
        ("unknown-variable", "Main.nope", "DINT", "A1 := A1 + 1;", "A1"),
        ("type-mismatch", "Main.x", "INT", "A1 := A1 + INT#1;", "A1"),
    ] {
        for mode in ["READ_WRITE", "READ_ONLY", ""] {
            for (rw, body) in [("read", format!("r := {read};")), ("write", write.to_string())] {
                let post = format!("CONFIGURATION Conf\nVAR_GLOBAL g : DINT; END_VAR\nPROGRAM Main : Main;\nVAR_ACCESS\n    A1 : {path} : {ty} {mode};\nEND_VAR\nEND_CONFIGURATION\n");
                out.push(pg().pre(common).var(main_vars).body(&body).post(&post).cycles(3).case(format!("form:var-access:{target}:{rw}")));
            }
        }
    }
}

fn form_namespaces(out: &mut Vec<Case>) {
    // item in a namespace x how it is reached
    let items: [(&str, &str, &str, &str); 9] = [
        ("function", "FUNCTION Twice : DINT\nVAR_INPUT a : DINT; END_VAR\n    Twice := a * 2;\nEND_FUNCTION\n", "", "r := {Q}Twice(2);"),
        ("fb-body", "FUNCTION_BLOCK Acc\nVAR_INPUT i : DINT; END_VAR\nVAR_OUTPUT q : DINT; END_VAR\n    q := q + i;\nEND_FUNCTION_BLOCK\n", "f : {Q}Acc;", "f(i := 2);\nr := f.q;"),
        ("fb-method", "FUNCTION_BLOCK Cnt\nVAR v : DINT; END_VAR\nMETHOD PUBLIC Inc : DINT\n    v := v + 1;\n    Inc := v;\nEND_METHOD\nMETHOD PUBLIC Two : DINT\n    Two := Inc() + THIS.Inc();\nEND_METHOD\nEND_FUNCTION_BLOCK\n", "f : {Q}Cnt;", "r := f.Inc();\nr := f.Two();"),
        ("class-method", "CLASS Cnt\nVAR v : DINT; END_VAR\nMETHOD PUBLIC Inc : DINT\n    v := v + 1;\n    Inc := v;\nEND_METHOD\nEND_CLASS\n", "f : {Q}Cnt;", "r := f.Inc();"),
        ("struct", "TYPE Pt : STRUCT a : DINT; END_STRUCT END_TYPE\n", "f : {Q}Pt;", "f.a := f.a + 1;\nr := f.a;"),
        ("enum", "TYPE Color : (Red, Green, Blue); END_TYPE\n", "f : {Q}Color;", "f := {Q}Color#Green;\nCASE f OF {Q}Color#Green: r := 1; END_CASE;"),
        ("interface", "INTERFACE IInc\nMETHOD Inc : DINT\nEND_METHOD\nEND_INTERFACE\nFUNCTION_BLOCK Impl IMPLEMENTS IInc\nVAR v : DINT; END_VAR\nMETHOD PUBLIC Inc : DINT\n    v := v + 1;\n    Inc := v;\nEND_METHOD\nEND_FUNCTION_BLOCK\n", "f : {Q}Impl; i : {Q}IInc;", "i := f;\nr := i.Inc();"),
        ("derived-fb", "FUNCTION_BLOCK Base\nVAR v : DINT; END_VAR\nMETHOD PUBLIC Inc : DINT\n    v := v + 1;\n    Inc := v;\nEND_METHOD\nEND_FUNCTION_BLOCK\nFUNCTION_BLOCK Der EXTENDS Base\nMETHOD PUBLIC OVERRIDE Inc : DINT\n    Inc := SUPER.Inc() + 10;\nEND_METHOD\nEND_FUNCTION_BLOCK\n", "f : {Q}Der;", "r := f.Inc();"),
        ("function-calling-sibling", "FUNCTION Twice : DINT\nVAR_INPUT a : DINT; END_VAR\n    Twice := a * 2;\nEND_FUNCTION\nFUNCTION Four : DINT\nVAR_INPUT a : DINT; END_VAR\n    Four := Twice(Twice(a));\nEND_FUNCTION\n", "", "r := {Q}Four(2);"),
    ];
    for (item, decl, var, body) in items {
        // (access id, text before Main, qualifier used in Main, USING clause inside Main)
        let reaches: [(&str, String, &str, &str); 7] = [
            ("qualified", format!("NAMESPACE Lib\n{decl}END_NAMESPACE\n"), "Lib.", ""),
            ("using-global", format!("NAMESPACE Lib\n{decl}END_NAMESPACE\nUSING Lib;\n"), "", ""),
            ("using-in-program", format!("NAMESPACE Lib\n{decl}END_NAMESPACE\n"), "", "USING Lib;\n"),
            ("nested-qualified", format!("NAMESPACE Outer\nNAMESPACE Lib\n{decl}END_NAMESPACE\nEND_NAMESPACE\n"), "Outer.Lib.", ""),
            ("nested-using-in-program", format!("NAMESPACE Outer\nNAMESPACE Lib\n{decl}END_NAMESPACE\nEND_NAMESPACE\n"), "", "USING Outer.Lib;\n"),
            ("nested-using-outer-then-qualified", format!("NAMESPACE Outer\nNAMESPACE Lib\n{decl}END_NAMESPACE\nEND_NAMESPACE\n"), "Lib.", "USING Outer;\n"),
            ("dotted-namespace-name", format!("NAMESPACE Outer.Lib\n{decl}END_NAMESPACE\n"), "Outer.Lib.", ""),
        ];
        for (reach, pre, q, using) in reaches {
            let v = var.replace("{Q}", q);
            let b = body.replace("{Q}", q);
            let mut text = String::new();
            text.push_str(&pre);
            text.push_str(&format!("PROGRAM Main\n{using}VAR\n    {v} r : DINT;\nEND_VAR\n"));
            for l in b.lines() {
                text.push_str(&format!("    {l}\n"));
            }
            text.push_str("END_PROGRAM\n");
            let feature = if matches!(item, "fb-method" | "class-method" | "derived-fb" | "interface" | "function-calling-sibling") { format!("form:namespace:{item}") } else { format!("form:namespace:{item}:{reach}") };
            out.push(Case { family: FAM, feature, prog: Prog { vars: vec![Decl::new("r", Ty::DInt)], ..Default::default() }, cycles: 3, reference: false, raw: Some(text) });
        }
    }
    // a program inside a namespace; INTERNAL members; USING inside a function / method
    out.push(Case { family: FAM, feature: "form:namespace:program-in-namespace".into(), prog: Prog::default(), cycles: 2, reference: false, raw: Some("NAMESPACE App\nPROGRAM Main\nVAR r : DINT; END_VAR\n    r := r + 1;\nEND_PROGRAM\nEND_NAMESPACE\n".into()) });
    let lib = "NAMESPACE Lib\nFUNCTION Twice : DINT\nVAR_INPUT a : DINT; END_VAR\n    Twice := a * 2;\nEND_FUNCTION\nFUNCTION_BLOCK Cnt\nVAR v : DINT; END_VAR\nMETHOD INTERNAL Inc : DINT\n    v := v + 1;\n    Inc := v;\nEND_METHOD\nMETHOD PUBLIC Pub : DINT\n    Pub := Inc();\nEND_METHOD\nEND_FUNCTION_BLOCK\nEND_NAMESPACE\n";
    let lib_use = lib.replace("END_NAMESPACE\n", "FUNCTION UseCnt : DINT\nVAR c : Lib.Cnt; END_VAR\n    UseCnt := c.Inc();\nEND_FUNCTION\nEND_NAMESPACE\n");
    out.push(pg().pre(lib).var("c : Lib.Cnt; r : DINT;").body("r := c.Inc();").case("form:namespace:internal-method:from-outside"));
    out.push(pg().pre(lib).var("c : Lib.Cnt; r : DINT;").body("r := c.Pub();").case("form:namespace:fb-method"));
    out.push(pg().pre(&lib_use).var("r : DINT;").body("r := Lib.UseCnt();").case("form:namespace:fb-method"));
    out.push(pg().pre(&lib_use.replace("c : Lib.Cnt;", "c : Cnt;")).var("r : DINT;").body("r := Lib.UseCnt();").case("form:namespace:sibling-type-unqualified"));
    out.push(pg().pre(lib).pre("FUNCTION Outside : DINT\nUSING Lib;\nVAR_INPUT a : DINT; END_VAR\n    Outside := Twice(a);\nEND_FUNCTION\n").var("r : DINT;").body("r := Outside(2);").case("form:namespace:using-in-function"));
    out.push(pg().pre(lib).pre("FUNCTION_BLOCK Fb\nUSING Lib;\nVAR_OUTPUT q : DINT; END_VAR\nMETHOD PUBLIC M : DINT\n    M := Twice(3);\nEND_METHOD\n    q := Twice(2);\nEND_FUNCTION_BLOCK\n").var("f : Fb; r : DINT;").body("f();\nr := f.M();").case("form:namespace:using-in-fb-used-by-method"));
    out.push(pg().pre(lib).pre("FUNCTION_BLOCK Fb\nMETHOD PUBLIC M : DINT\nUSING Lib;\n    M := Twice(3);\nEND_METHOD\nEND_FUNCTION_BLOCK\n").var("f : Fb; r : DINT;").body("r := f.M();").case("form:namespace:using-in-method"));
}

/// Statements that the checker refuses in a PROGRAM body, placed in a FUNCTION_BLOCK body (with
/// and without methods / actions next to it): refused -> not a case; accepted -> C01 / C03 judge
/// what the runtime makes of them.
fn form_fb_body_checks(out: &mut Vec<Case>) {
    for (what, stmt) in [
        // one representative per class of checker rule (every rule is missing in the same way)
        ("string-into-dint", "q := 'oops';"),
        ("undefined-variable-read", "q := nowhere + 1;"),
        ("wrong-argument-count", "q := MAX(1);"),
        ("non-bool-condition", "IF q THEN q := 1; END_IF;"),
        ("exit-outside-loop", "EXIT;"),
    ] {
        for (shape, methods) in [("body-only", ""), ("body-after-method", "METHOD PUBLIC M : DINT\n    M := 1;\nEND_METHOD\n")] {
            let pre = format!("FUNCTION_BLOCK Fb\nVAR_INPUT i : DINT; END_VAR\nVAR_OUTPUT q : DINT; n : INT; END_VAR\nVAR CONSTANT K : DINT := 1; END_VAR\nVAR x : REAL; s : STRING; END_VAR\n{methods}    {stmt}\n    n := n + INT#1;\nEND_FUNCTION_BLOCK\n");
            let _ = (shape, what);
            out.push(pg().pre(&pre).var("f : Fb; r : DINT;").body("f(i := 1);\nr := f.q;").tags("f", &[(".i", Ty::DInt), (".q", Ty::DInt), (".n", Ty::Int), (".x", Ty::Real)]).case("form:fb-body-statement:refused-in-program-body"));
        }
        // the same statement in a program body and in a method body (the checker's reference behaviour)
        let text = format!("PROGRAM Main\nVAR_INPUT i : DINT; END_VAR\nVAR q : DINT; n : INT; x : REAL; s : STRING; r : DINT; END_VAR\nVAR CONSTANT K : DINT := 1; END_VAR\n    {stmt}\n    q := q + 1;\nEND_PROGRAM\n");
        out.push(Case { family: FAM, feature: format!("form:program-body-statement:{what}"), prog: Prog { vars: vec![Decl::new("q", Ty::DInt), Decl::new("n", Ty::Int), Decl::new("x", Ty::Real)], ..Default::default() }, cycles: 2, reference: false, raw: Some(text) });
    }
}

fn form_actions(out: &mut Vec<Case>) {
    let fb = "FUNCTION_BLOCK F\nVAR_INPUT i : DINT; END_VAR\nVAR_OUTPUT q : DINT; END_VAR\nMETHOD PUBLIC M : DINT\n    Act();\n    M := q;\nEND_METHOD\nMETHOD PUBLIC MT : DINT\n    THIS.Act();\n    MT := q;\nEND_METHOD\n    Act();\n    q := q + i;\nACTION Act\n    q := q + 100;\nEND_ACTION\nEND_FUNCTION_BLOCK\n";
    let fb_first = "FUNCTION_BLOCK F\nVAR_INPUT i : DINT; END_VAR\nVAR_OUTPUT q : DINT; END_VAR\nACTION Act\n    q := q + 100;\nEND_ACTION\n    q := q + i;\nEND_FUNCTION_BLOCK\n";
    for (what, pre, body) in [
        ("fb:called-from-body", fb, "f(i := 1);\nr := f.q;"),
        ("fb:called-from-outside", fb, "f.Act();\nr := f.q;"),
        ("fb:called-from-outside-without-parentheses", fb, "f.Act;\nr := f.q;"),
        ("fb:called-from-method", fb, "r := f.M();"),
        ("fb:called-from-method-through-this", fb, "r := f.MT();"),
        ("fb:declared-before-body", fb_first, "f(i := 1);\nf.Act();\nr := f.q;"),
    ] {
        out.push(pg().pre(pre).var("f : F; r : DINT;").body(body).tag("f.q", Ty::DInt).cycles(3).case(format!("form:action:{what}")));
    }
    out.push(pg().pre("FUNCTION_BLOCK F\nVAR_INPUT i : DINT; END_VAR\nVAR_OUTPUT q : DINT; END_VAR\n    q := q + i;\nACTION Act\n    q := q + 100;\nEND_ACTION\nEND_FUNCTION_BLOCK\n").var("f : F; r : DINT;").body("f(i := 1);\nr := f.q;").tag("f.q", Ty::DInt).cycles(3).case("form:action:fb:declared-only"));
    out.push(pg().pre("FUNCTION_BLOCK F\nVAR_INPUT i : DINT; END_VAR\nVAR_OUTPUT q : DINT; END_VAR\nACTION Act\n    q := q + 100;\nEND_ACTION\n    q := q + i;\nEND_FUNCTION_BLOCK\n").var("f : F; r : DINT;").body("f(i := 1);\nr := f.q;").tag("f.q", Ty::DInt).cycles(3).case("form:action:fb:declared-only"));
    out.push(Case { family: FAM, feature: "form:action:program:declared-only".into(), prog: Prog { vars: vec![Decl::new("r", Ty::DInt)], ..Default::default() }, cycles: 3, reference: false, raw: Some("PROGRAM Main\nVAR r : DINT; END_VAR\n    r := r + 1;\nACTION Act\n    r := r + 100;\nEND_ACTION\nEND_PROGRAM\n".into()) });
    out.push(Case { family: FAM, feature: "form:action:program:declared-only".into(), prog: Prog { vars: vec![Decl::new("r", Ty::DInt)], ..Default::default() }, cycles: 3, reference: false, raw: Some("PROGRAM Main\nVAR r : DINT; END_VAR\nACTION Act\n    r := r + 100;\nEND_ACTION\n    r := r + 1;\nEND_PROGRAM\n".into()) });
    for (what, body, act) in [
        ("program:called-from-body", "Act();\nr := r + 1;", "r := r + 100;"),
        ("program:called-without-parentheses", "Act;\nr := r + 1;", "r := r + 100;"),
        ("program:with-return", "Act();\nr := r + 1;", "IF r > 100 THEN RETURN; END_IF;\nr := r + 100;"),
        ("program:with-loop-and-exit", "Act();", "WHILE TRUE DO r := r + 1; EXIT; END_WHILE;"),
        ("program:two-actions-one-calls-the-other", "Act();", "Act2();\nr := r + 1;"),
    ] {
        let text = format!(
            "PROGRAM Main\nVAR r : DINT; END_VAR\n    {}\nACTION Act\n    {}\nEND_ACTION\nACTION Act2\n    r := r + 10;\nEND_ACTION\nEND_PROGRAM\n",
            body.replace('\n', "\n    "),
            act.replace('\n', "\n    ")
        );
        out.push(Case { family: FAM, feature: format!("form:action:{what}"), prog: Prog { vars: vec![Decl::new("r", Ty::DInt)], ..Default::default() }, cycles: 3, reference: false, raw: Some(text) });
    }
}

/// The four kinds of POU body a statement list can live in: the statements use the DINT
/// variables r, n, i, j (and the BOOL b) and may RETURN.
fn in_pou(pou: &str, stmts: &str) -> Pg {
    let ind = stmts.replace('\n', "\n    ");
    match pou {
        "program" => pg().var("r : DINT; n : DINT; i : DINT; j : DINT; b : BOOL;").body(stmts).body("n := n + 1;"),
        "function" => pg()
            .pre(&format!("FUNCTION Fn : DINT\nVAR_INPUT n : DINT; END_VAR\nVAR r : DINT; i : DINT; j : DINT; b : BOOL; END_VAR\n    Fn := 1;\n    {ind}\n    Fn := r + 2;\nEND_FUNCTION\n"))
            .var("r : DINT; n : DINT;")
            .body("r := Fn(n);\nn := n + 1;"),
        "fb" => pg()
            .pre(&format!("FUNCTION_BLOCK Fb\nVAR_INPUT n : DINT; END_VAR\nVAR_OUTPUT r : DINT; END_VAR\nVAR i : DINT; j : DINT; b : BOOL; END_VAR\n    {ind}\n    r := r + 2;\nEND_FUNCTION_BLOCK\n"))
            .var("f : Fb; r : DINT; n : DINT;")
            .body("f(n := n);\nr := f.r;\nn := n + 1;")
            .tag("f.r", Ty::DInt),
        _ => pg()
            .pre(&format!("FUNCTION_BLOCK Fb\nVAR r : DINT; i : DINT; j : DINT; b : BOOL; END_VAR\nMETHOD PUBLIC M : DINT\nVAR_INPUT n : DINT; END_VAR\n    M := 1;\n    {ind}\n    M := r + 2;\nEND_METHOD\nEND_FUNCTION_BLOCK\n"))
            .var("f : Fb; r : DINT; n : DINT;")
            .body("r := f.M(n);\nn := n + 1;")
            .tag("f.r", Ty::DInt),
    }
}

const POUS: [&str; 4] = ["program", "function", "fb", "method"];

fn form_jumps(out: &mut Vec<Case>) {
    let shapes: [(&str, &str); 22] = [
        ("forward", "JMP L1;\nr := 100;\nL1: r := r + 1;"),
        ("forward-over-several", "r := 1;\nJMP L1;\nr := 100;\nr := 200;\nL1: r := r + 1;\nr := r + 1;"),
        ("backward-bounded", "i := 0;\nL1: i := i + 1;\nIF i < 3 THEN JMP L1; END_IF;\nr := i;"),
        ("backward-bounded-flat", "i := 0;\nL1: i := i + 1;\nb := i < 3;\nr := i;"),
        ("label-on-empty-statement", "JMP L1;\nr := 100;\nL1: ;\nr := r + 1;"),
        ("label-last-statement", "r := r + 1;\nJMP L1;\nr := 100;\nL1: ;"),
        ("label-never-jumped-to", "r := r + 1;\nL1: r := r + 1;"),
        ("two-labels", "JMP L2;\nL1: r := r + 1;\nJMP L3;\nL2: r := r + 10;\nJMP L1;\nL3: r := r + 100;"),
        ("out-of-if", "IF n >= 0 THEN JMP L1; END_IF;\nr := 100;\nL1: r := r + 1;"),
        ("out-of-else", "IF n < 0 THEN r := 5; ELSE JMP L1; END_IF;\nr := 100;\nL1: r := r + 1;"),
        ("out-of-nested-if", "IF n >= 0 THEN IF n >= 0 THEN JMP L1; END_IF; END_IF;\nr := 100;\nL1: r := r + 1;"),
        ("out-of-case", "CASE n OF 0: JMP L1; ELSE JMP L1; END_CASE;\nr := 100;\nL1: r := r + 1;"),
        ("out-of-for", "FOR i := 0 TO 5 DO IF i = 2 THEN JMP L1; END_IF; END_FOR;\nr := 100;\nL1: r := r + i;"),
        ("out-of-for-flat", "FOR i := 0 TO 5 DO JMP L1; END_FOR;\nr := 100;\nL1: r := r + i;"),
        ("out-of-while", "WHILE TRUE DO JMP L1; END_WHILE;\nr := 100;\nL1: r := r + 1;"),
        ("out-of-repeat", "REPEAT JMP L1; UNTIL TRUE END_REPEAT;\nr := 100;\nL1: r := r + 1;"),
        ("inside-if-both-ends", "IF n >= 0 THEN JMP L1; r := 100; L1: r := r + 1; END_IF;"),
        ("inside-loop-both-ends", "FOR i := 0 TO 2 DO JMP L1; r := 100; L1: r := r + 1; END_FOR;"),
        ("into-if", "JMP L1;\nIF n < 0 THEN r := 100; L1: r := r + 1; END_IF;"),
        ("into-loop", "JMP L1;\nFOR i := 0 TO 2 DO r := 100; L1: r := r + 1; END_FOR;"),
        ("taken-only-in-cycle-2", "IF n > 0 THEN JMP L1; END_IF;\nr := 100;\nL1: r := r + 1;"),
        ("label-on-loop", "JMP L1;\nr := 100;\nL1: FOR i := 0 TO 2 DO r := r + 1; END_FOR;"),
    ];
    for pou in POUS {
        for (shape, stmts) in shapes {
            // where the label lives relative to the JMP is the cause class (the POU kind and the
            // kind of block only matter when label and jump share a statement list)
            let class = match shape {
                "out-of-if" | "out-of-else" | "out-of-nested-if" | "out-of-case" | "backward-bounded" | "taken-only-in-cycle-2" => "label-in-enclosing-list:from-selection".to_string(),
                "out-of-for" | "out-of-for-flat" | "out-of-while" | "out-of-repeat" => "label-in-enclosing-list:from-loop".to_string(),
                "into-if" | "into-loop" => "label-in-nested-list".to_string(),
                other => format!("label-in-same-list:{pou}:{other}"),
            };
            out.push(in_pou(pou, stmts).cycles(3).case(format!("form:jmp:{class}")));
        }
    }
    for (what, stmts) in [("undefined-label", "JMP Nowhere;\nr := 1;"), ("duplicate-label", "JMP L1;\nL1: r := 1;\nL1: r := 2;"), ("label-named-like-variable", "JMP r;\nr := 100;\nr: r := r + 1;")] {
        out.push(in_pou("program", stmts).case(format!("form:jmp:{what}")));
    }
}

/// RETURN in every POU kind at every nesting of depth <= 2 (thorough: 3).
fn form_returns(out: &mut Vec<Case>, thorough: bool) {
    // (id, opening text with the place of the inner statements marked by @, is a loop)
    let wraps: [(&str, &str, bool); 9] = [
        ("if", "IF n >= 0 THEN @ END_IF;", false),
        ("elsif", "IF n < 0 THEN r := 5; ELSIF n >= 0 THEN @ END_IF;", false),
        ("else", "IF n < 0 THEN r := 5; ELSE @ END_IF;", false),
        ("case", "CASE n OF 0, 1, 2: @ ELSE r := 5; END_CASE;", false),
        ("case-else", "CASE n OF 77: r := 5; ELSE @ END_CASE;", false),
        ("for", "FOR i := 0 TO 3 DO r := r + 1; IF i = 1 THEN @ END_IF; END_FOR;", true),
        ("for-flat", "FOR j := 0 TO 3 DO @ END_FOR;", true),
        ("while", "WHILE r < 1000 DO r := r + 1; @ END_WHILE;", true),
        ("repeat", "REPEAT r := r + 1; @ UNTIL r > 1000 END_REPEAT;", true),
    ];
    let max_depth = if thorough { 3 } else { 2 };
    let mut paths: Vec<Vec<usize>> = vec![vec![]];
    let mut frontier: Vec<Vec<usize>> = vec![vec![]];
    for _ in 0..max_depth {
        let mut next = Vec::new();
        for p in &frontier {
            for w in 0..wraps.len() {
                let mut q = p.clone();
                q.push(w);
                next.push(q);
            }
        }
        paths.extend(next.iter().cloned());
        frontier = next;
    }
    for pou in POUS {
        for path in &paths {
            // a function with a result must return a value, a program / FB body must not
            let forms: Vec<(&str, String)> = match pou {
                "function" => vec![("always:with-value", "RETURN r + 1;".into()), ("in-cycle-2:with-value", "IF n > 0 THEN RETURN r + 1; END_IF;".into())],
                "method" => vec![("always", "RETURN;".into()), ("in-cycle-2", "IF n > 0 THEN RETURN; END_IF;".into()), ("always:with-value", "RETURN r + 1;".into())],
                _ => vec![("always", "RETURN;".into()), ("in-cycle-2", "IF n > 0 THEN RETURN; END_IF;".into())],
            };
            for (when, ret) in forms {
                // build inside-out
                let mut text = format!("r := r + 1; {ret} r := r + 100;");
                for w in path.iter().rev() {
                    text = wraps[*w].1.replace('@', &text);
                }
                let under_loop = path.iter().any(|w| wraps[*w].2);
                let innermost = path.last().map(|w| wraps[*w].0).unwrap_or("top-level");
                let feature = format!("form:return:{pou}:in-{innermost}{}{}", if under_loop && !wraps[*path.last().unwrap_or(&0)].2 { ":inside-loop" } else { "" }, if when.ends_with("with-value") { ":with-value" } else { "" });
                out.push(in_pou(pou, &text).cycles(3).case(feature));
            }
        }
        // RETURN as the only / first / last statement; after the result assignment
        for (what, stmts) in [("only-statement", "RETURN;"), ("first-statement", "RETURN;\nr := 100;"), ("last-statement", "r := r + 1;\nRETURN;"), ("twice", "RETURN;\nRETURN;"), ("with-value", "RETURN r + 1;")] {
            out.push(in_pou(pou, stmts).cycles(3).case(format!("form:return:{pou}:{what}")));
        }
    }
}

/// EXIT / CONTINUE at every loop nesting inside methods (F4 has the program level).
fn form_loop_control(out: &mut Vec<Case>, thorough: bool) {
    // loop kinds: counter variables c0..c2 bound every loop to 3 iterations
    let mk = |kind: &str, level: usize, inner: &str| -> String {
        let c = format!("c{level}");
        match kind {
            "for" => format!("FOR {c} := 0 TO 2 DO {inner} END_FOR;"),
            "while" => format!("{c} := 0; WHILE {c} < 3 DO {c} := {c} + 1; {inner} END_WHILE;"),
            _ => format!("{c} := 0; REPEAT {c} := {c} + 1; {inner} UNTIL {c} >= 3 END_REPEAT;"),
        }
    };
    let kinds = ["for", "while", "repeat"];
    let max_depth = if thorough { 3 } else { 2 };
    let mut nests: Vec<Vec<&str>> = Vec::new();
    let mut frontier: Vec<Vec<&str>> = vec![vec![]];
    for _ in 0..max_depth {
        let mut next = Vec::new();
        for p in &frontier {
            for k in kinds {
                let mut q = p.clone();
                q.push(k);
                next.push(q);
            }
        }
        nests.extend(next.iter().cloned());
        frontier = next;
    }
    for nest in &nests {
        for ctl in ["EXIT", "CONTINUE"] {
            // the control statement sits at loop level `at` (0 = outermost), after the inner loops
            for at in 0..nest.len() {
                for (guard, stmt) in [("plain", format!("IF c{at} = 1 THEN {ctl}; END_IF;")), ("in-case", format!("CASE c{at} OF 1: {ctl}; ELSE r := r + 1; END_CASE;")), ("in-nested-if", format!("IF c{at} >= 1 THEN IF c{at} = 1 THEN {ctl}; END_IF; END_IF;"))] {
                    let mut text = String::new();
                    for level in (0..nest.len()).rev() {
                        let mut inner = String::new();
                        if level == at {
                            // before the nested loop, so that the nested loop is skipped by CONTINUE
                            inner.push_str(&stmt);
                            inner.push(' ');
                        }
                        inner.push_str("r := r + 1; ");
                        inner.push_str(&text);
                        text = mk(nest[level], level, &inner);
                    }
                    let pre = format!(
                        "FUNCTION_BLOCK Fb\nVAR r : DINT; END_VAR\nMETHOD PUBLIC M : DINT\nVAR c0 : DINT; c1 : DINT; c2 : DINT; END_VAR\n    {text}\n    M := r;\nEND_METHOD\nEND_FUNCTION_BLOCK\n"
                    );
                    let depth_cls = if at + 1 == nest.len() { "innermost" } else if at == 0 { "outermost" } else { "middle" };
                    out.push(pg().pre(&pre).var("f : Fb; r : DINT;").body("r := f.M();").tag("f.r", Ty::DInt).case(format!("form:{}:method:{}:{depth_cls}-of-{}:{guard}", ctl.to_ascii_lowercase(), nest[at], nest.len())));
                }
            }
        }
    }
    // EXIT / CONTINUE outside any loop, in a called POU while the caller loops (must be refused or inert)
    for ctl in ["EXIT", "CONTINUE"] {
        let c = ctl.to_ascii_lowercase();
        out.push(in_pou("program", &format!("{ctl};\nr := r + 1;")).case(format!("form:{c}:outside-loop:program")));
        out.push(in_pou("method", &format!("{ctl};\nr := r + 1;")).case(format!("form:{c}:outside-loop:method")));
        out.push(in_pou("function", &format!("IF n > 100 THEN {ctl}; END_IF;\nr := r + 1;")).case(format!("form:{c}:outside-loop:function")));
        out.push(in_pou("fb", &format!("IF n > 100 THEN {ctl}; END_IF;\nr := r + 1;")).case("form:fb-body-statement:refused-in-program-body"));
        out.push(in_pou("fb", &format!("{ctl};\nr := r + 1;")).case("form:fb-body-statement:refused-in-program-body"));
        let pre = format!("FUNCTION Callee : DINT\nVAR_INPUT a : DINT; END_VAR\n    IF a = 1 THEN {ctl}; END_IF;\n    Callee := a;\nEND_FUNCTION\n");
        out.push(pg().pre(&pre).var("r : DINT; i : DINT;").body("FOR i := 0 TO 2 DO r := r + Callee(i); END_FOR;").case(format!("form:{c}:in-callee-of-looping-caller")));
        let pre = format!("FUNCTION_BLOCK Fb\nVAR_INPUT a : DINT; END_VAR\nVAR_OUTPUT q : DINT; END_VAR\n    IF a = 1 THEN {ctl}; END_IF;\n    q := q + 1;\nEND_FUNCTION_BLOCK\n");
        out.push(pg().pre(&pre).var("f : Fb; r : DINT; i : DINT;").body("FOR i := 0 TO 2 DO f(a := i); END_FOR;\nr := f.q;").case("form:fb-body-statement:refused-in-program-body"));
    }
}

fn form_en_eno(out: &mut Vec<Case>) {
    // declared EN / ENO x callee kind x call form
    for (declared, en_decl, eno_decl) in [
        ("en+eno", "VAR_INPUT EN : BOOL := TRUE; END_VAR\n", "VAR_OUTPUT ENO : BOOL; END_VAR\n"),
        ("en-only", "VAR_INPUT EN : BOOL := TRUE; END_VAR\n", ""),
        ("eno-only", "", "VAR_OUTPUT ENO : BOOL; END_VAR\n"),
        ("implicit", "", ""),
        ("en-without-default", "VAR_INPUT EN : BOOL; END_VAR\n", "VAR_OUTPUT ENO : BOOL; END_VAR\n"),
    ] {
        let body = if eno_decl.is_empty() { "" } else { "    IF a > 100 THEN ENO := FALSE; END_IF;\n" };
        let fun = format!("FUNCTION Fn : DINT\n{en_decl}VAR_INPUT a : DINT; END_VAR\n{eno_decl}VAR_OUTPUT q : DINT; END_VAR\nVAR_IN_OUT io : DINT; END_VAR\n{body}    io := io + 1;\n    q := a;\n    Fn := a + 1;\nEND_FUNCTION\n");
        let fb = format!("FUNCTION_BLOCK Fb\n{en_decl}VAR_INPUT a : DINT; END_VAR\n{eno_decl}VAR_OUTPUT q : DINT; END_VAR\nVAR_IN_OUT io : DINT; END_VAR\nVAR n : DINT; END_VAR\nMETHOD PUBLIC M : DINT\n{en_decl}VAR_INPUT a : DINT; END_VAR\n{eno_decl}VAR_OUTPUT q : DINT; END_VAR\nVAR_IN_OUT io : DINT; END_VAR\n{body}    io := io + 1;\n    q := a;\n    M := a + 1;\nEND_METHOD\n{body}    n := n + 1;\n    io := io + 1;\n    q := a;\nEND_FUNCTION_BLOCK\n");
        let calls: [(&str, &str); 12] = [
            ("en-true", "EN := TRUE, a := 2, q => y, io := x"),
            ("en-false", "EN := FALSE, a := 2, q => y, io := x"),
            ("en-false-eno-bound", "EN := FALSE, a := 2, q => y, io := x, ENO => ok"),
            ("en-true-eno-bound", "EN := TRUE, a := 2, q => y, io := x, ENO => ok"),
            ("en-omitted-eno-bound", "a := 2, q => y, io := x, ENO => ok"),
            ("en-omitted", "a := 2, q => y, io := x"),
            ("en-variable-false-in-cycle-2", "EN := k = 0, a := 2, q => y, io := x, ENO => ok"),
            ("en-false-without-in-out", "EN := FALSE, a := 2"),
            ("eno-cleared-by-body", "EN := TRUE, a := 200, q => y, io := x, ENO => ok"),
            ("eno-negated-binding", "a := 2, io := x, ENO => NOT ok"),
            ("positional", "2, y, x"),
            ("positional-with-en", "TRUE, 2, y, x"),
        ];
        for (call, args) in calls {
            let decls = "x : DINT; y : DINT; r : DINT; k : DINT; ok : BOOL := TRUE; f : Fb;";
            let call = if call.starts_with("positional") { "positional" } else if call.contains("false") { "disabled" } else if call.contains("eno") { "enabled:eno-bound" } else { "enabled" };
            let tail = "\nk := k + 1;";
            out.push(pg().pre(&fun).var(&decls.replace(" f : Fb;", "")).body(&format!("r := Fn({args});{tail}")).cycles(3).case(format!("form:en-eno:function:{declared}:{call}")));
            out.push(pg().pre(&fb).var(decls).body(&format!("f({args});\nr := f.q;{tail}")).tags("f", &[(".a", Ty::DInt), (".q", Ty::DInt), (".n", Ty::DInt)]).cycles(3).case(format!("form:en-eno:fb:{declared}:{call}")));
            out.push(pg().pre(&fb).var(decls).body(&format!("r := f.M({args});{tail}")).cycles(3).case(format!("form:en-eno:method:{declared}:{call}")));
        }
        // ENO read as a member; EN of standard functions and FBs
        out.push(pg().pre(&fb).var("x : DINT; r : DINT; ok : BOOL; f : Fb;").body("f(EN := FALSE, a := 2, io := x);\nok := f.ENO;").cycles(3).case(format!("form:en-eno:fb:{declared}:eno-read-as-member")));
    }
    for (what, body) in [
        ("standard-function:en", "r := ADD(EN := ok, IN1 := 1, IN2 := 2);"),
        ("standard-function:eno", "r := ADD(IN1 := 1, IN2 := 2, ENO => ok);"),
        ("standard-function:en-false", "r := MAX(EN := FALSE, IN1 := 1, IN2 := 2, ENO => ok);"),
        ("standard-fb:en", "t(EN := ok, IN := TRUE, PT := T#1s);"),
        ("standard-fb:eno", "t(IN := TRUE, PT := T#1s, ENO => ok);"),
        ("conversion:en", "r := INT_TO_DINT(EN := ok, IN := INT#2);"),
    ] {
        out.push(pg().var("r : DINT; ok : BOOL := TRUE; t : TON;").body(body).case(format!("form:en-eno:{what}")));
    }
}

fn form_partial_access(out: &mut Vec<Case>, thorough: bool) {
    // (kind id, spelling prefix, width of the accessed part, type of the part, a value of the part)
    let kinds: [(&str, &str, u32, &str, &str); 6] = [
        ("bit-number", ".", 1, "BOOL", "TRUE"),
        ("%X", ".%X", 1, "BOOL", "TRUE"),
        ("%B", ".%B", 8, "BYTE", "BYTE#16#A5"),
        ("%W", ".%W", 16, "WORD", "WORD#16#A5A5"),
        ("%D", ".%D", 32, "DWORD", "DWORD#16#A5A5A5A5"),
        ("%L", ".%L", 64, "LWORD", "LWORD#16#A5A5A5A5A5A5A5A5"),
    ];
    let mut types: Vec<&str> = vec!["BYTE", "WORD", "DWORD", "LWORD"];
    types.extend(INTS);
    types.extend(["BOOL", "REAL", "TIME"]);
    for t in types {
        let w = width(t);
        for (kid, spell, pw, pt, pv) in kinds {
            let n = w / pw; // number of parts of this size in the type (0: the part is wider than the type)
            let mut positions: Vec<u32> = if thorough { (0..=n + 1).collect() } else { vec![0, n.saturating_sub(1), n, n + 1] };
            positions.extend([64, 255, 256]);
            positions.sort();
            positions.dedup();
            for pos in positions {
                let cls = if pos > 255 { "position>255" } else if pos < n { "position<count" } else { "position>=count" };
                let init = one(t);
                let decls = format!("v : {t} := {init}; part : {pt}; r : DINT;");
                // IEC defines partial access on bit strings for parts smaller than the type: every
                // other (type, part) combination is one cause class (the compiler decides)
                let bitstring = matches!(t, "BYTE" | "WORD" | "DWORD" | "LWORD");
                let f = |op: &str| -> String {
                    if !bitstring {
                        "form:partial-access:undefined-combination:not-a-bit-string".to_string()
                    } else if pw >= w {
                        "form:partial-access:undefined-combination:part-not-smaller-than-type".to_string()
                    } else if pos > 255 {
                        "form:partial-access:position>255".to_string()
                    } else {
                        format!("form:partial-access:{kid}:{op}:{cls}")
                    }
                };
                out.push(pg().var(&decls).body(&format!("part := v{spell}{pos};")).case(f("read")));
                out.push(pg().var(&decls).body(&format!("v{spell}{pos} := {pv};")).cycles(3).case(f("write")));
                if pos == 0 {
                    out.push(pg().var(&decls).body(&format!("v{spell}{pos} := NOT v{spell}{pos};")).cycles(3).case(f("read-modify-write")));
                    out.push(pg().var(&decls).body(&format!("v{spell}{pos} := part;\npart := v{spell}{pos};")).cycles(3).case(f("write-from-variable")));
                }
            }
        }
    }
    // on targets other than a plain variable, in conditions, with untyped values
    let pre = "TYPE Sw : STRUCT w : WORD; i : INT; END_STRUCT END_TYPE\nFUNCTION_BLOCK Fw\nVAR PUBLIC w : WORD; END_VAR\nVAR_OUTPUT q : BOOL; END_VAR\nMETHOD PUBLIC M : BOOL\n    w.%X1 := TRUE;\n    THIS.w.%X2 := TRUE;\n    M := w.%X1 AND THIS.w.2;\nEND_METHOD\n    w.3 := NOT w.3;\n    q := w.3;\nEND_FUNCTION_BLOCK\nFUNCTION Fw2 : BOOL\nVAR_IN_OUT x : WORD; END_VAR\nVAR_INPUT y : WORD; END_VAR\n    x.%X0 := y.%X1;\n    Fw2 := x.0;\nEND_FUNCTION\n";
    for (what, body) in [
        ("struct-field:read", "b := s.w.%X1;\nb := s.w.3;\nby := s.w.%B1;"),
        ("struct-field:write", "s.w.%X1 := TRUE;"),
        ("array-element:read", "b := aw[1].%X0;\nby := aw[k].%B1;"),
        ("array-element:write", "aw[1].%X0 := TRUE;"),
        ("array-element:index-out-of-range", "b := aw[k].%X0;\nk := k + 5;"),
        ("fb-member:read", "f();\nb := f.w.%X3;\nb := f.w.3;"),
        ("fb-member:write", "f.w.%X3 := TRUE;"),
        ("inside-fb-and-method", "f();\nb := f.M();"),
        ("in-out-and-input-parameter", "b := Fw2(w, w2);"),
        ("dereference", "p := REF(w);\nb := p^.%X0;\np^.%X1 := TRUE;"),
        ("parenthesised-expression", "b := (w).%X0;\nb := (w AND w2).%X0;"),
        ("function-result", "b := SHL(w, 1).%X0;\nby := WORD_TO_BYTE(w).%B0;"),
        ("literal", "b := WORD#16#FF.%X0;"),
        ("chained", "b := w.%B1.%X0;\nw.%B1.%X0 := TRUE;"),
        ("in-condition", "IF w.%X0 THEN r := 1; ELSIF NOT w.1 THEN r := 2; END_IF;\nWHILE w2.%X15 DO w2.%X15 := FALSE; END_WHILE;"),
        ("as-call-argument", "r := SEL(w.%X0, 1, 2);\nby := MAX(w.%B0, w.%B1);"),
        ("as-case-selector", "CASE w.%B0 OF 0: r := 1; ELSE r := 2; END_CASE;"),
        ("as-for-bound", "FOR k := 0 TO BYTE_TO_DINT(w.%B0) DO r := r + 1; END_FOR;"),
        ("write-untyped-literal:bit", "w.%X0 := 1;"),
        ("write-untyped-literal:byte", "w.%B0 := 255;"),
        ("write-untyped-literal:byte-too-large", "w.%B0 := 256;"),
        ("write-wider-value", "w.%B0 := w2;"),
        ("write-narrower-value", "dw.%W0 := by;"),
        ("write-integer-into-bits", "w.%B0 := USINT#5;"),
        ("int-field-bit", "s.i.%X1 := TRUE;\nb := s.i.%X1;"),
        ("bit-of-bool", "b := b.%X0;\nb.0 := TRUE;"),
        ("sign-bit-of-signed", "si.%X7 := TRUE;\nii.15 := TRUE;\ndi.%X31 := TRUE;\nli.%X63 := TRUE;"),
        ("high-byte-of-signed", "ii.%B1 := BYTE#16#FF;\ndi.%W1 := WORD#16#FFFF;\nli.%D1 := DWORD#16#FFFFFFFF;"),
    ] {
        out.push(
            pg().pre(pre)
                .var("w : WORD := WORD#16#1234; w2 : WORD := WORD#16#8000; dw : DWORD; by : BYTE; b : BOOL; s : Sw; aw : ARRAY[0..2] OF WORD; f : Fw; p : REF_TO WORD; si : SINT; ii : INT; di : DINT; li : LINT; r : DINT; k : DINT := 1;")
                .body(body)
                .tag("s.w", Ty::Word)
                .tag("s.i", Ty::Int)
                .tag("f.w", Ty::Word)
                .cycles(3)
                .case(format!("form:partial-access:on:{what}")),
        );
    }
}

fn form_sizeof_adr(out: &mut Vec<Case>) {
    let pre = "TYPE St : STRUCT a : DINT; b : INT; s : STRING[5]; END_STRUCT END_TYPE\nTYPE Color : (Red, Green); END_TYPE\nTYPE Sub : INT(0..5); END_TYPE\nINTERFACE I\nMETHOD M : DINT\nEND_METHOD\nEND_INTERFACE\nFUNCTION_BLOCK F\nVAR v : DINT; END_VAR\nEND_FUNCTION_BLOCK\nCLASS C\nVAR v : DINT; END_VAR\nEND_CLASS\n";
    let decls = "r : DINT; u : UDINT; x : DINT; st : St; arr : ARRAY[0..2] OF INT; a3 : ARRAY[0..1, 0..1, 0..1] OF LINT; s : STRING[7]; ws : WSTRING[3]; f : F; c : C; i : I; col : Color; sb : Sub; p : REF_TO DINT; t : TIME; d : DATE; lr : LREAL; b : BOOL;";
    let mut targets: Vec<(String, String)> = Vec::new();
    for t in ELEM {
        targets.push((format!("type:{}", type_class(t)), format!("r := SIZEOF({t});")));
    }
    for (what, arg) in [
        ("type:string", "STRING"),
        ("type:sized-string", "STRING[10]"),
        ("type:date", "DATE"),
        ("type:struct", "St"),
        ("type:enum", "Color"),
        ("type:subrange", "Sub"),
        ("type:fb", "F"),
        ("type:class", "C"),
        ("type:interface", "I"),
        ("type:inline-array", "ARRAY[0..2] OF INT"),
        ("type:reference", "REF_TO DINT"),
        ("variable:dint", "x"),
        ("variable:bool", "b"),
        ("variable:lreal", "lr"),
        ("variable:time", "t"),
        ("variable:date", "d"),
        ("variable:struct", "st"),
        ("variable:struct-field", "st.b"),
        ("variable:struct-string-field", "st.s"),
        ("variable:array", "arr"),
        ("variable:array-element", "arr[1]"),
        ("variable:array-3d", "a3"),
        ("variable:string", "s"),
        ("variable:wstring", "ws"),
        ("variable:fb-instance", "f"),
        ("variable:class-instance", "c"),
        ("variable:interface-unassigned", "i"),
        ("variable:enum", "col"),
        ("variable:subrange", "sb"),
        ("variable:reference-null", "p"),
        ("variable:dereference-null", "p^"),
        ("expression:arithmetic", "x + 1"),
        ("expression:literal", "5"),
        ("expression:string-literal", "'abc'"),
        ("expression:call", "ABS(x)"),
    ] {
        targets.push((what.to_string(), format!("r := SIZEOF({arg});")));
    }
    targets.push(("result-into-unsigned".into(), "u := SIZEOF(x);".into()));
    targets.push(("in-expression".into(), "r := SIZEOF(arr) / SIZEOF(INT);\nFOR x := 0 TO SIZEOF(arr) / SIZEOF(arr[0]) - 1 DO arr[x] := INT#1; END_FOR;".into()));
    targets.push(("array-index-out-of-range".into(), "r := SIZEOF(arr[x]);\nx := x + 5;".into()));
    for (what, body) in targets {
        let what = match what.as_str() {
            "type:fb" | "type:class" | "type:interface" | "variable:fb-instance" | "variable:class-instance" | "variable:interface-unassigned" => "instance-or-interface".to_string(),
            w if w.starts_with("type:") && ELEM.iter().any(|t| w == format!("type:{}", type_class(t))) => "type:elementary".to_string(),
            _ => what,
        };
        out.push(pg().pre(pre).var(decls).body(&body).case(format!("form:sizeof:{what}")));
    }
    for (what, body) in [
        ("variable", "p := ADR(x);\np^ := 3;\nr := p^;"),
        ("array-element", "pi := ADR(arr[1]);\npi^ := INT#3;"),
        ("struct-field", "p := ADR(st.a);\np^ := 3;"),
        ("array-index-out-of-range", "pi := ADR(arr[x]);\nx := x + 5;"),
        ("into-integer", "u := ADR(x);"),
        ("of-expression", "p := ADR(x + 1);"),
        ("of-literal", "p := ADR(5);"),
        ("compare", "p := ADR(x);\nb := p = ADR(x);\nb := p <> NULL;"),
        ("fb-instance", "pf := ADR(f);\nr := pf^.v;"),
    ] {
        out.push(pg().pre(pre).var(&format!("{decls} pi : REF_TO INT; pf : REF_TO F;")).body(body).case(format!("form:adr:{what}")));
    }
}

fn form_literals(out: &mut Vec<Case>) {
    // integer and bit-string literals in every base, typed and untyped, with underscores
    let mut types: Vec<&str> = INTS.to_vec();
    types.extend(["BYTE", "WORD", "DWORD", "LWORD"]);
    for t in types {
        let w = width(t);
        let signed = matches!(t, "SINT" | "INT" | "DINT" | "LINT");
        let maxv: u128 = if signed { (1u128 << (w - 1)) - 1 } else { (1u128 << w) - 1 };
        let forms: Vec<(&str, String)> = vec![
            ("decimal", "10".into()),
            ("decimal-underscore", "1_0".into()),
            ("binary", "2#1010".into()),
            ("binary-underscore", "2#0000_1010".into()),
            ("octal", "8#12".into()),
            ("hex", "16#A".into()),
            ("hex-lower-case", "16#a".into()),
            ("hex-underscore", "16#0_A".into()),
            ("leading-zeros", "0010".into()),
            ("maximum:decimal", format!("{maxv}")),
            ("maximum:hex", format!("16#{maxv:X}")),
            ("maximum:binary", format!("2#{maxv:b}")),
            ("maximum:octal", format!("8#{maxv:o}")),
            ("beyond-maximum:hex", format!("16#{:X}", maxv + 1)),
            ("all-ones:hex", format!("16#{:X}", (1u128 << w) - 1)),
        ];
        for (form, lit) in forms {
            out.push(pg().var(&format!("v : {t}; w : {t} := {lit};")).body(&format!("v := {lit};")).case(format!("form:literal:untyped:{form}")));
            let typed = if let Some(rest) = lit.strip_prefix('-') { format!("{t}#-{rest}") } else if let Some(rest) = lit.strip_prefix('+') { format!("{t}#+{rest}") } else { format!("{t}#{lit}") };
            out.push(pg().var(&format!("v : {t}; w : {t} := {typed};")).body(&format!("v := {typed};")).case(format!("form:literal:typed:{form}")));
            out.push(pg().var(&format!("v : {t}; w : {t} := {};", typed.to_ascii_lowercase())).body(&format!("v := {};", typed.to_ascii_lowercase())).case("form:literal:typed-lower-case-prefix"));
        }
    }
    // a sign in front of an untyped literal (one representative type per class: the target must keep its tag)
    for t in ["INT", "WORD", "REAL"] {
        let (m, pl) = if matches!(t, "REAL" | "LREAL") { ("-1.5", "+1.5") } else { ("-10", "+10") };
        if t != "WORD" {
            out.push(pg().var(&format!("v : {t};")).body(&format!("v := {m};")).case("form:literal:signed:minus:assigned"));
            out.push(pg().var(&format!("v : {t} := {m};")).body("v := v;").case("form:literal:signed:minus:initialiser"));
        }
        out.push(pg().var(&format!("v : {t};")).body(&format!("v := {pl};")).case(if t == "WORD" { "form:literal:signed:plus:bit-string-target" } else { "form:literal:signed:plus:assigned" }));
        out.push(pg().var(&format!("v : {t} := {pl};")).body("v := v;").case("form:literal:signed:plus:initialiser"));
        if t == "INT" {
            out.push(pg().var(&format!("v : {t};")).body("v := -16#A;").case("form:literal:signed:minus:assigned"));
            out.push(pg().var(&format!("v : {t};")).body(&format!("v := {t}#-10;\nv := {t}#+10;")).case("form:literal:signed:typed"));
        }
    }
    // real literals
    for t in ["REAL", "LREAL"] {
        for (form, lit) in [
            ("fraction", "1.5"),
            ("exponent", "1.5E3"),
            ("exponent-lower-case", "1.5e3"),
            ("exponent-plus", "1.5E+3"),
            ("exponent-negative", "1.5E-3"),
            ("exponent-without-fraction", "1E3"),
            ("underscore", "1_000.000_1"),
            ("integer-valued", "2"),
            ("huge", "1.0E38"),
            ("beyond-real", "1.0E39"),
            ("beyond-lreal", "1.0E309"),
            ("tiny", "1.0E-45"),
            ("underflow", "1.0E-400"),
            ("zero-exponent", "0.0E0"),
            ("trailing-dot", "1."),
            ("leading-dot", ".5"),
        ] {
            out.push(pg().var(&format!("v : {t}; w : {t} := {lit};")).body(&format!("v := {lit};")).case(format!("form:literal:real:untyped:{form}")));
            let typed = if let Some(rest) = lit.strip_prefix('-') { format!("{t}#-{rest}") } else { format!("{t}#{lit}") };
            out.push(pg().var(&format!("v : {t}; w : {t} := {typed};")).body(&format!("v := {typed};")).case(format!("form:literal:real:typed:{form}")));
        }
    }
    // BOOL
    for (form, lit) in [("TRUE", "TRUE"), ("FALSE", "FALSE"), ("lower-case", "true"), ("BOOL#1", "BOOL#1"), ("BOOL#0", "BOOL#0"), ("BOOL#TRUE", "BOOL#TRUE"), ("one", "1"), ("zero", "0"), ("two", "2"), ("BOOL#2", "BOOL#2")] {
        out.push(pg().var(&format!("v : BOOL; w : BOOL := {lit};")).body(&format!("v := {lit};")).case(format!("form:literal:bool:{form}")));
    }
    // durations with mixed units, dates, times of day
    for (t, prefixes) in [("TIME", vec!["T#", "TIME#", "t#", "time#"]), ("LTIME", vec!["LT#", "LTIME#", "lt#"])] {
        for (form, body) in [
            ("single-unit", "5s"),
            ("all-units", "1d2h3m4s5ms"),
            ("all-units-underscore", "1d_2h_3m_4s_5ms"),
            ("micro-and-nano", "1ms2us3ns"),
            ("fraction", "1.5s"),
            ("fraction-in-last-unit-only", "1h30.5m"),
            ("fraction-in-first-unit", "1.5h30m"),
            ("overflowing-unit", "25h"),
            ("overflowing-minor-unit", "1h90m"),
            ("negative", "-5s"),
            ("negative-mixed", "-1m30s"),
            ("zero", "0s"),
            ("upper-case-units", "1H30M"),
            ("units-out-of-order", "5s1h"),
            ("repeated-unit", "1s1s"),
            ("huge-days", "106751d"),
            ("beyond-range", "106752d"),
            ("way-beyond-range", "99999999999d"),
            ("sub-resolution", "0.0001ms"),
            ("nanosecond", "1ns"),
            ("no-unit", "5"),
        ] {
            for px in &prefixes {
                let plain = *px == "T#" || *px == "LT#";
                let f = if plain { format!("form:literal:duration:{form}") } else { "form:literal:duration:prefix-spelling".to_string() };
                let p = pg().var(&format!("v : {t}; w : {t} := {px}{body};")).body(&format!("v := {px}{body};"));
                out.push(p.case(f));
            }
        }
    }
    for (form, t, lit) in [
        ("date", "DATE", "D#2024-02-29"),
        ("date:long-prefix", "DATE", "DATE#2024-02-29"),
        ("date:lower-case", "DATE", "d#2024-02-29"),
        ("date:invalid-day", "DATE", "D#2023-02-29"),
        ("date:month-13", "DATE", "D#2023-13-01"),
        ("date:year-0", "DATE", "D#0000-01-01"),
        ("date:before-1970", "DATE", "D#1969-12-31"),
        ("date:single-digits", "DATE", "D#2024-2-9"),
        ("ldate", "LDATE", "LDATE#2024-02-29"),
        ("ldate:short-prefix", "LDATE", "LD#2024-02-29"),
        ("tod", "TOD", "TOD#12:30:15"),
        ("tod:long-prefix", "TOD", "TIME_OF_DAY#12:30:15.250"),
        ("tod:fraction", "TOD", "TOD#12:30:15.123456789"),
        ("tod:24h", "TOD", "TOD#24:00:00"),
        ("tod:minute-60", "TOD", "TOD#12:60:00"),
        ("tod:second-60", "TOD", "TOD#12:00:60"),
        ("tod:hour-25", "TOD", "TOD#25:00:00"),
        ("tod:hour-huge", "TOD", "TOD#99999999999:00:00"),
        ("ltod", "LTOD", "LTOD#12:30:15.000000001"),
        ("dt", "DT", "DT#2024-02-29-12:30:15"),
        ("dt:long-prefix", "DT", "DATE_AND_TIME#2024-02-29-12:30:15.5"),
        ("dt:invalid-date", "DT", "DT#2023-02-29-12:30:15"),
        ("dt:hour-24", "DT", "DT#2024-02-29-24:00:00"),
        ("ldt", "LDT", "LDT#2024-02-29-12:30:15.000000001"),
    ] {
        out.push(pg().var(&format!("v : {t}; w : {t} := {lit};")).body(&format!("v := {lit};")).case(format!("form:literal:{form}")));
    }
    // strings and characters
    for (form, t, lit) in [
        ("string:plain", "STRING", "'abc'"),
        ("string:empty", "STRING", "''"),
        ("string:dollar-escapes", "STRING", "'$$ $' $L $N $P $R $T $l $n'"),
        ("string:hex-escape", "STRING", "'$41$0A$00'"),
        ("string:hex-escape-high", "STRING", "'$FF$80'"),
        ("string:double-quote-inside", "STRING", "'a\"b'"),
        ("string:escaped-double-quote", "STRING", "'a$\"b'"),
        ("string:dangling-dollar", "STRING", "'abc$'"),
        ("string:bad-hex", "STRING", "'$ZZ'"),
        ("string:one-hex-digit", "STRING", "'$4'"),
        ("string:multibyte", "STRING", "'äö€'"),
        ("string:typed", "STRING", "STRING#'abc'"),
        ("string:at-declared-length", "STRING[3]", "'abc'"),
        ("string:beyond-declared-length", "STRING[3]", "'abcd'"),
        ("string:length-0", "STRING[0]", "''"),
        ("string:length-huge", "STRING[100000]", "'a'"),
        ("wstring:plain", "WSTRING", "\"abc\""),
        ("wstring:hex-escape", "WSTRING", "\"$0041$20AC\""),
        ("wstring:surrogate-escape", "WSTRING", "\"$D800\""),
        ("wstring:short-hex-escape", "WSTRING", "\"$41\""),
        ("wstring:single-quote-inside", "WSTRING", "\"a'b\""),
        ("wstring:typed", "WSTRING", "WSTRING#\"abc\""),
        ("wstring:from-single-quoted", "WSTRING", "'abc'"),
        ("string:from-double-quoted", "STRING", "\"abc\""),
        ("char", "CHAR", "'a'"),
        ("char:typed", "CHAR", "CHAR#'a'"),
        ("char:escape", "CHAR", "'$41'"),
        ("char:two-characters", "CHAR", "'ab'"),
        ("char:empty", "CHAR", "''"),
        ("wchar", "WCHAR", "\"a\""),
        ("wchar:escape", "WCHAR", "\"$20AC\""),
    ] {
        out.push(pg().var(&format!("v : {t}; w : {t} := {lit}; r : DINT;")).body(&format!("v := {lit};")).case(format!("form:literal:{form}")));
    }
}

fn form_case(out: &mut Vec<Case>) {
    // selector type x label form
    for t in INTS.iter().chain(["BYTE", "WORD"].iter()) {
        let Some(ty) = elem(t) else { continue };
        let tc = type_class(t);
        let neg = if ty.is_signed() { "-3" } else { "250" };
        for (form, labels) in [
            ("single", "1: r := 1;".to_string()),
            ("list", "1, 3, 5: r := 1;".to_string()),
            ("range", "1..3: r := 1;".to_string()),
            ("range-and-list", "0, 2..3, 7: r := 1;".to_string()),
            ("negative-or-high-label", format!("{neg}: r := 1;")),
            ("negative-or-high-range", if ty.is_signed() { "-5..-1: r := 1;".to_string() } else { "200..255: r := 1;".to_string() }),
            ("range-across-zero", if ty.is_signed() { "-2..2: r := 1;".to_string() } else { "0..2: r := 1;".to_string() }),
            ("reversed-range", "3..1: r := 1;".to_string()),
            ("single-value-range", "2..2: r := 1;".to_string()),
            ("typed-labels", format!("{t}#1: r := 1; {t}#2..{t}#3: r := 2;")),
            ("hex-labels", "16#1: r := 1; 2#10: r := 2;".to_string()),
            ("overlapping-labels", "1..3: r := 1; 2: r := 2;".to_string()),
            ("duplicate-labels", "1: r := 1; 1: r := 2;".to_string()),
            ("label-beyond-type", "100000: r := 1;".to_string()),
            ("label-beyond-lint", "9223372036854775807: r := 1;".to_string()),
            ("expression-label", "1 + 1: r := 1;".to_string()),
            ("empty-branch", "1: ; 2: r := 2;".to_string()),
            ("branch-with-several-statements", "1: r := 1; r := r + 1; r := r + 1; 2: r := 2;".to_string()),
            ("many-branches", (0..40).map(|i| format!("{i}: r := {i};")).collect::<Vec<_>>().join(" ")),
        ] {
            let sel_vals = if ty.is_signed() { vec![one(t), format!("{t}#-3"), format!("{t}#0")] } else { vec![one(t), format!("{t}#{}", if ty.is_bits() { "16#FA" } else { "250" })] };
            for v in sel_vals {
                for tail in [" ELSE r := 9;", ""] {
                    out.push(pg().var(&format!("s : {t} := {v}; r : DINT;")).body(&format!("CASE s OF {labels}{tail} END_CASE;")).case(format!("form:case:{form}:{tc}")));
                }
            }
        }
    }
    // enumeration labels, nested CASE, selector expressions
    let pre = "TYPE Color : (Red, Green, Blue); END_TYPE\nTYPE Lvl : INT (Low := -1, Mid := 5, High := 300); END_TYPE\n";
    for (what, body) in [
        ("enum:typed-labels", "CASE c OF Color#Red: r := 1; Color#Green, Color#Blue: r := 2; END_CASE;"),
        ("enum:range-of-labels", "CASE c OF Color#Red..Color#Green: r := 1; ELSE r := 2; END_CASE;"),
        ("enum:explicit-values", "CASE l OF Lvl#Low: r := 1; Lvl#High: r := 2; ELSE r := 3; END_CASE;"),
        ("enum:integer-labels", "CASE c OF 0: r := 1; 1: r := 2; END_CASE;"),
        ("enum:selector-advances", "CASE c OF Color#Red: c := Color#Green; Color#Green: c := Color#Blue; ELSE c := Color#Red; END_CASE;"),
        ("nested", "CASE k OF 0: CASE k + 1 OF 1: r := 1; ELSE r := 2; END_CASE; ELSE CASE k OF 1: r := 3; END_CASE; END_CASE;\nk := k + 1;"),
        ("selector:expression", "CASE k * 2 + 1 OF 1: r := 1; 3: r := 2; END_CASE;\nk := k + 1;"),
        ("selector:function-call", "CASE MAX(k, 1) OF 1: r := 1; ELSE r := 2; END_CASE;"),
        ("selector:array-element", "CASE arr[k] OF 0: r := 1; ELSE r := 2; END_CASE;\nk := k + 5;"),
        ("selector:bool", "CASE b OF TRUE: r := 1; FALSE: r := 2; END_CASE;"),
        ("selector:real", "CASE x OF 1: r := 1; END_CASE;"),
        ("selector:string", "CASE str OF 'a': r := 1; END_CASE;"),
        ("selector:time", "CASE t OF T#1s: r := 1; END_CASE;"),
        ("selector:parenthesised", "CASE (k) OF 0: r := 1; END_CASE;"),
        ("no-branches", "CASE k OF ELSE r := 1; END_CASE;"),
        ("statement-modifies-selector", "CASE k OF 0: k := 1; 1: k := 2; 2: k := 0; END_CASE;"),
    ] {
        out.push(pg().pre(pre).var("c : Color; l : Lvl := Lvl#High; k : DINT; r : DINT; b : BOOL; x : REAL; str : STRING; t : TIME; arr : ARRAY[0..2] OF DINT;").body(body).cycles(3).case(format!("form:case:{what}")));
    }
}

fn form_misc(out: &mut Vec<Case>, thorough: bool) {
    // empty statements and empty bodies
    for (what, body) in [
        ("double-semicolon", "r := r + 1;;\n;;\nr := r + 1;"),
        ("only-semicolons", ";;;"),
        ("empty-if", "IF r = 0 THEN END_IF;\nIF r = 0 THEN ; ELSE ; END_IF;"),
        ("empty-loops", "FOR i := 0 TO 2 DO END_FOR;\nFOR i := 0 TO 2 DO ; END_FOR;\nWHILE FALSE DO END_WHILE;\nREPEAT UNTIL TRUE END_REPEAT;\nREPEAT ; UNTIL TRUE END_REPEAT;"),
        ("empty-case-branches", "CASE r OF 0: ; 1: ;; ELSE ; END_CASE;"),
        ("semicolon-after-end", "IF r = 0 THEN r := 1; END_IF;;\nFOR i := 0 TO 1 DO r := r + 1; END_FOR;;"),
        ("no-semicolon-after-end", "IF r = 0 THEN r := 1; END_IF\nr := r + 1;"),
    ] {
        out.push(pg().var("r : DINT; i : DINT;").body(body).case(format!("form:empty-statement:{what}")));
    }
    out.push(Case { family: FAM, feature: "form:empty-statement:empty-program".into(), prog: Prog::default(), cycles: 2, reference: false, raw: Some("PROGRAM Main\nEND_PROGRAM\n".into()) });
    out.push(Case { family: FAM, feature: "form:empty-statement:empty-program-with-vars".into(), prog: Prog::default(), cycles: 2, reference: false, raw: Some("PROGRAM Main\nVAR r : DINT; END_VAR\nEND_PROGRAM\n".into()) });
    out.push(pg().pre("FUNCTION_BLOCK F\nEND_FUNCTION_BLOCK\nCLASS C\nEND_CLASS\nFUNCTION_BLOCK G\nMETHOD PUBLIC M\nEND_METHOD\nEND_FUNCTION_BLOCK\n").var("f : F; c : C; g : G; r : DINT;").body("f();\ng.M();").case("form:empty-statement:empty-pous"));
    // ELSIF chains and nesting depth
    let depths: Vec<usize> = if thorough { vec![2, 10, 50, 200] } else { vec![2, 10, 50] };
    for n in depths {
        let mut chain = String::from("IF k = 0 THEN r := 0;");
        for i in 1..n {
            chain.push_str(&format!(" ELSIF k = {i} THEN r := {i};"));
        }
        chain.push_str(" ELSE r := -1; END_IF;\nk := k + 1;");
        let cls = if n <= 10 { "short" } else { "long" };
        out.push(pg().var("r : DINT; k : DINT;").body(&chain).cycles(3).case(format!("form:elsif-chain:{cls}:first-branches-taken")));
        out.push(pg().var(&format!("r : DINT; k : DINT := {};", n - 2)).body(&chain).cycles(3).case(format!("form:elsif-chain:{cls}:last-branches-and-else-taken")));
        // conditions with side effects: every condition before the taken one is evaluated once
        let mut chain = String::from("IF Bump(k) = 100 THEN r := 0;");
        for i in 1..n {
            chain.push_str(&format!(" ELSIF Bump(k) = {} THEN r := {i};", i + 1));
        }
        chain.push_str(" END_IF;");
        out.push(pg().pre("FUNCTION Bump : DINT\nVAR_IN_OUT x : DINT; END_VAR\n    x := x + 1;\n    Bump := x;\nEND_FUNCTION\n").var("r : DINT; k : DINT;").body(&chain).cycles(2).case(format!("form:elsif-chain:{cls}:conditions-with-side-effects")));
        let mut nest = String::new();
        for i in 0..n {
            nest.push_str(&format!("IF k >= {} THEN ", i % 3));
        }
        nest.push_str("r := r + 1;");
        for _ in 0..n {
            nest.push_str(" END_IF;");
        }
        nest.push_str("\nk := k + 1;");
        out.push(pg().var("r : DINT; k : DINT;").body(&nest).cycles(3).case(format!("form:nesting-depth:{cls}:if")));
        let mut par = String::from("r := ");
        for _ in 0..n {
            par.push('(');
        }
        par.push('k');
        for _ in 0..n {
            par.push_str(" + 1)");
        }
        par.push(';');
        out.push(pg().var("r : DINT; k : DINT;").body(&par).case(format!("form:nesting-depth:{cls}:parentheses")));
    }
}

/// Call forms of plain functions / FBs not covered by F5 / F6: untyped literals as arguments and
/// defaults (C03: the parameter keeps its declared tag), positional + formal mixes.
fn form_arguments(out: &mut Vec<Case>) {
    for (t, lit) in [("INT", "5"), ("REAL", "2.5")] {
        let Some(ty) = elem(t) else { continue };
        let pous = format!(
            "FUNCTION Echo : {t}\nVAR_INPUT a : {t}; END_VAR\n    Echo := a;\nEND_FUNCTION\nFUNCTION Dflt : {t}\nVAR_INPUT a : {t} := {lit}; END_VAR\n    Dflt := a;\nEND_FUNCTION\nFUNCTION_BLOCK Fb\nVAR_INPUT a : {t}; d : {t} := {lit}; END_VAR\nVAR_OUTPUT q : {t}; o : {t} := {lit}; END_VAR\nVAR keep : {t}; v : {t} := {lit}; END_VAR\nMETHOD PUBLIC M : {t}\nVAR_INPUT a : {t}; END_VAR\n    keep := a;\n    M := a;\nEND_METHOD\n    q := a;\nEND_FUNCTION_BLOCK\n"
        );
        let fb_tags: [(&str, Ty); 6] = [(".a", ty), (".d", ty), (".q", ty), (".o", ty), (".keep", ty), (".v", ty)];
        // the POU kind of the callee is one cause class (argument binding is shared), declared
        // defaults / initial values another
        for (site, body) in [
            ("argument", format!("r := Echo({lit});")),
            ("argument", format!("r := Echo(a := {lit});")),
            ("argument", format!("f(a := {lit});\nr := f.q;")),
            ("argument", format!("r := f.M({lit});")),
            ("argument", format!("r := f.M(a := {lit});")),
            ("parameter-default", "r := Dflt();".to_string()),
            ("fb-initial-values", "f();\nr := f.d;".to_string()),
            ("parenthesised", format!("r := ({lit});")),
            ("array-element-target", format!("arr[1] := {lit};")),
        ] {
            out.push(pg().pre(&pous).var(&format!("f : Fb; r : {t}; arr : ARRAY[0..1] OF {t}; n : DINT;")).body(&body).tags("f", &fb_tags).case(format!("form:untyped-literal:{site}")));
        }
    }
    // positional arguments followed by formal ones; formal outputs only; repeated / unknown names
    let pous = "FUNCTION Fn : DINT\nVAR_INPUT a : DINT; b : DINT := 7; END_VAR\nVAR_IN_OUT io : DINT; END_VAR\nVAR_OUTPUT q : DINT; END_VAR\n    io := io + a;\n    q := b;\n    Fn := a + b;\nEND_FUNCTION\nFUNCTION_BLOCK Fb\nVAR_INPUT a : DINT; b : DINT := 7; END_VAR\nVAR_IN_OUT io : DINT; END_VAR\nVAR_OUTPUT q : DINT; END_VAR\n    io := io + a;\n    q := q + b;\nEND_FUNCTION_BLOCK\nFUNCTION Two : DINT\nVAR_INPUT a : DINT; b : DINT; END_VAR\n    Two := a - b;\nEND_FUNCTION\n";
    for (what, body) in [
        ("mixed:function:input-positional-rest-formal", "r := Fn(1, b := 2, io := x, q => y);"),
        ("mixed:function:in-out-positional", "r := Fn(1, 2, x, q => y);"),
        ("mixed:function:inputs-only", "r := Two(1, b := 2);"),
        ("mixed:function:formal-then-positional", "r := Two(a := 1, 2);"),
        ("mixed:fb:input-positional-rest-formal", "f(1, b := 2, io := x, q => y);"),
        ("mixed:fb:in-out-positional", "f(1, 2, x, q => y);"),
        ("positional:fb:all", "f(1, 2, x, y);"),
        ("positional:fb:inputs-only", "f(1, 2);"),
        ("positional:function:too-few", "r := Two(1);"),
        ("positional:function:too-many", "r := Two(1, 2, 3);"),
        ("formal:repeated-name", "r := Two(a := 1, a := 2, b := 3);"),
        ("formal:unknown-name", "r := Two(a := 1, c := 2);"),
        ("formal:output-as-input", "r := Fn(a := 1, io := x, q := y);"),
        ("formal:input-as-output", "r := Fn(a => y, io := x);"),
        ("formal:in-out-literal", "r := Fn(a := 1, io := 5);"),
        ("formal:in-out-expression", "r := Fn(a := 1, io := x + 1);"),
        ("formal:in-out-array-element", "r := Fn(a := 1, io := arr[k]);\nk := k + 2;"),
        ("formal:output-array-element-out-of-range", "r := Fn(a := 1, io := x, q => arr[k]);\nk := k + 2;"),
        ("formal:same-variable-in-out-and-output", "r := Fn(a := 1, io := x, q => x);"),
        ("formal:function-name-as-variable", "r := Fn;"),
        ("call-statement:function-result-discarded", "Fn(a := 1, io := x);\nTwo(1, 2);"),
        ("fb:called-like-function", "r := f(a := 1, io := x);"),
        ("fb:type-called", "Fb(a := 1, io := x);"),
    ] {
        out.push(pg().pre(pous).var("f : Fb; r : DINT; x : DINT; y : DINT; k : DINT := 1; arr : ARRAY[0..2] OF DINT;").body(body).tags("f", &[(".a", Ty::DInt), (".b", Ty::DInt), (".q", Ty::DInt)]).cycles(3).case(format!("form:call:{what}")));
    }
}

/// `x / z` (z = 0 from cycle 2) inside the remaining forms.
fn form_faults(out: &mut Vec<Case>) {
    let pre = "FUNCTION Quot : DINT\nVAR_INPUT d : DINT; END_VAR\n    Quot := 10 / d;\nEND_FUNCTION\nFUNCTION Gate : DINT\nVAR_INPUT EN : BOOL := TRUE; d : DINT; END_VAR\nVAR_OUTPUT ENO : BOOL; q : DINT; END_VAR\n    q := 10 / d;\n    Gate := q;\nEND_FUNCTION\nFUNCTION_BLOCK Tmp\nVAR_INPUT d : DINT := 1; END_VAR\nVAR_OUTPUT q : DINT; END_VAR\nVAR_TEMP t : DINT := 10 / d; END_VAR\n    q := q + t;\nEND_FUNCTION_BLOCK\nFUNCTION_BLOCK TmpM\nVAR q : DINT; END_VAR\nMETHOD PUBLIC M : DINT\nVAR_INPUT d : DINT; END_VAR\nVAR_TEMP t : DINT := 10 / d; END_VAR\n    M := t;\nEND_METHOD\nEND_FUNCTION_BLOCK\nNAMESPACE Lib\nFUNCTION NsQuot : DINT\nVAR_INPUT d : DINT; END_VAR\n    NsQuot := 10 / d;\nEND_FUNCTION\nEND_NAMESPACE\n";
    for (site, stmt) in [
        ("jmp-loop-body", "i := 0;\nL1: i := i + 1;\nr := r + 10 / z;\nJMP L2;\nr := 100;\nL2: r := r + 1;"),
        ("labelled-statement", "JMP L1;\nL1: r := 10 / z;"),
        ("case-range-branch", "CASE r OF 0..1000000: r := 10 / z; ELSE r := 0; END_CASE;"),
        ("case-else-branch", "CASE r OF -5: r := 0; ELSE r := 10 / z; END_CASE;"),
        ("case-selector-with-ranges", "CASE 10 / z OF 0..5: r := 1; 6..20: r := 2; END_CASE;"),
        ("between-empty-statements", ";;\nr := 10 / z;;\n;"),
        ("elsif-chain-late-condition", "IF r = -1 THEN r := 0; ELSIF r = -2 THEN r := 0; ELSIF r = -3 THEN r := 0; ELSIF 10 / z = 0 THEN r := 0; ELSE r := 1; END_IF;"),
        ("deep-if-nest", "IF TRUE THEN IF TRUE THEN IF TRUE THEN IF TRUE THEN r := 10 / z; END_IF; END_IF; END_IF; END_IF;"),
        ("loop-nest-with-exit", "FOR i := 0 TO 2 DO WHILE TRUE DO REPEAT r := 10 / z; EXIT; UNTIL TRUE END_REPEAT; EXIT; END_WHILE; END_FOR;"),
        ("after-continue", "FOR i := 0 TO 2 DO IF i = 0 THEN CONTINUE; END_IF; r := 10 / z; END_FOR;"),
        ("before-return", "r := 10 / z;\nRETURN;"),
        ("en-argument", "r := Gate(EN := 10 / z > 0, d := 1);"),
        ("callee-with-en-eno", "r := Gate(EN := TRUE, d := z, ENO => ok, q => y);"),
        ("callee-with-en-eno:positional", "r := Gate(z, y);"),
        ("var-temp-initialiser:fb", "tm(d := z);"),
        ("var-temp-initialiser:method", "r := tmm.M(z);"),
        ("namespaced-function", "r := Lib.NsQuot(z);"),
        ("partial-access-operand", "b := w.%X0 AND (10 / z > 0);"),
        ("partial-access-target-value", "w.%X1 := 10 / z > 0;"),
        ("sizeof-operand", "r := SIZEOF(10 / z);"),
        ("in-out-argument-index", "r := Quot(arr[2 / z]);"),
        ("constant-operand", "r := N / z;"),
        ("retained-target", "keep := 10 / z;"),
        ("string-length-argument", "s := LEFT('abcdef', 10 / z);"),
        ("time-division", "t := T#10s / z;"),
        ("real-division-is-not-a-fault", "x := REAL#10.0 / DINT_TO_REAL(z);"),
        ("modulo", "r := 10 MOD z;"),
    ] {
        out.push(
            pg().pre(pre)
                .block("VAR CONSTANT", "N : DINT := 10;")
                .block("VAR RETAIN", "keep : DINT;")
                .var("z : DINT := 1; r : DINT; i : DINT; y : DINT; x : REAL; ok : BOOL; b : BOOL; w : WORD; s : STRING; t : TIME; arr : ARRAY[0..2] OF DINT; tm : Tmp; tmm : TmpM;")
                .body(stmt)
                .body("z := 0;")
                .cycles(3)
                .case(format!("fault:form:{site}")),
        );
    }
    // program-level VAR_TEMP initialiser and a global read by an FB through VAR_EXTERNAL
    out.push(pg().block("VAR_TEMP", "t : DINT := 10 / z;").var("z : DINT := 1; r : DINT;").body("r := t;\nz := 0;").cycles(3).case("fault:form:var-temp-initialiser:program"));
    out.push(
        pg().pre("FUNCTION_BLOCK Ext\nVAR_EXTERNAL gz : DINT; END_VAR\nVAR_OUTPUT q : DINT; END_VAR\n    q := 10 / gz;\nEND_FUNCTION_BLOCK\n")
            .block("VAR_EXTERNAL", "gz : DINT;")
            .var("e : Ext; r : DINT;")
            .body("e();\nr := e.q;\ngz := 0;")
            .post("CONFIGURATION Conf\nVAR_GLOBAL gz : DINT := 1; END_VAR\nPROGRAM Main : Main;\nEND_CONFIGURATION\n")
            .cycles(3)
            .case("fault:form:fb-reads-global"),
    );
}

// ---------------------------------------------------------------------------------------------
// family
// ---------------------------------------------------------------------------------------------

/// Family F16, simplest first within each group.
pub fn cases(thorough: bool) -> Vec<Case> {
    let mut out = Vec::new();
    methods_basic(&mut out);
    method_call_positions(&mut out);
    inheritance(&mut out);
    interfaces(&mut out);
    properties(&mut out);
    oop_faults(&mut out);
    method_name_collisions(&mut out);
    agg_paths(&mut out);
    agg_assign(&mut out);
    agg_init(&mut out);
    agg_instances(&mut out);
    agg_arrays(&mut out, thorough);
    agg_params(&mut out);
    agg_vla(&mut out);
    agg_strings(&mut out);
    agg_faults(&mut out);
    form_constants(&mut out);
    form_var_sections(&mut out);
    form_globals(&mut out);
    form_namespaces(&mut out);
    form_actions(&mut out);
    form_fb_body_checks(&mut out);
    form_jumps(&mut out);
    form_returns(&mut out, thorough);
    form_loop_control(&mut out, thorough);
    form_en_eno(&mut out);
    form_partial_access(&mut out, thorough);
    form_sizeof_adr(&mut out);
    form_literals(&mut out);
    form_case(&mut out);
    form_misc(&mut out, thorough);
    form_arguments(&mut out);
    form_faults(&mut out);
    // identical texts are one case
    let mut seen = std::collections::HashSet::new();
    out.retain(|c| seen.insert((c.feature.clone(), c.raw.clone())));
    out
}
