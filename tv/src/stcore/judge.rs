//! Judges of C01 (outcome class), C02 (agreement with the reference) and C03 (declared type
//! tags) over the shared corpus, plus the common engine driver.

use super::exec::{run_corpus, ProgResult};
use super::families;
use super::run::*;
use crate::fw::*;
use serde_json::{json, Value};
use std::collections::{BTreeMap, HashSet};
use std::time::{Duration, Instant};

fn viol(sig: String, what: String, c: &Case) -> Violation {
    Violation { signature: sig, what, case: json!({"family": c.family, "feature": c.feature, "cycles": c.cycles, "reference": c.reference, "prog": c.prog, "raw": c.raw, "text": c.text()}) }
}

/// Family + feature as used in signatures. Strata that exercise one known root cause are
/// coarsened to the discriminating part (one root cause => few signatures); everything else keeps
/// the full feature tuple so that a new defect gets a new signature.
fn ff(c: &Case) -> String {
    let f = &c.feature;
    match c.family {
        // r := a OP <untyped literal>: the operand type is what matters, not the operator
        "F1u" => {
            let t = f.split(':').nth(1).and_then(|s| s.split('x').next()).unwrap_or("?");
            format!("F1u:arith-untyped-literal:{t}")
        }
        // AT bindings of time-like types: the area does not matter
        "F9" if f.starts_with("at-binding:") => {
            format!("F9:{}", f.rsplitn(2, ':').nth(1).unwrap_or(f))
        }
        // r := r OP <untyped real literal>: operator and operand order do not matter
        "F3r" => "F3r:real-arith-untyped-literal".to_string(),
        fam => format!("{fam}:{f}"),
    }
}

fn clip(s: &str, n: usize) -> String {
    let mut o: String = s.chars().take(n).collect();
    if s.chars().count() > n {
        o.push('…');
    }
    o
}

pub fn judge_c01(c: &Case, r: &ProgResult) -> Vec<Violation> {
    let mut out = Vec::new();
    let ff = ff(c);
    match r {
        ProgResult::Rejected(_) => {}
        ProgResult::Abort(m) => out.push(viol(format!("C01/abort/{ff}"), format!("the process died while running an accepted program: {}", clip(m, 200)), c)),
        ProgResult::Hang => out.push(viol(format!("C01/hang/{ff}"), "no answer within 30 s for a program whose loops terminate".into(), c)),
        ProgResult::Ran(obs) => {
            for (k, o) in obs.iter().enumerate() {
                if let Some(m) = o.outcome.strip_prefix("panic:") {
                    out.push(viol(format!("C01/panic/{ff}"), format!("cycle {} panicked: {}", k + 1, clip(m, 160)), c));
                } else if let Some(f) = o.outcome.strip_prefix("fault:") {
                    if f == "ExecutionTimeout" && c.prog.budget_ms.is_some() {
                        // a program that is meant not to terminate: the budget fault is the expected outcome
                    } else if f == "ExecutionTimeout" {
                        out.push(viol(format!("C01/hang/{ff}"), format!("cycle {} did not terminate within 8 s", k + 1), c));
                    } else if !VALUE_FAULTS.contains(&f) {
                        out.push(viol(format!("C01/static:{f}/{ff}"), format!("accepted program failed in cycle {} with the static-class error {f}", k + 1), c));
                    }
                }
                if c.prog.budget_ms.is_some() && o.outcome == "ok" {
                    out.push(viol(format!("C01/budget-ignored/{ff}"), format!("cycle {} of a program that cannot terminate was reported as completed", k + 1), c));
                }
                if o.frames != 0 && !o.outcome.starts_with("panic:") {
                    out.push(viol(format!("C01/frames/{ff}"), format!("{} call frame(s) left behind after cycle {} (outcome {})", o.frames, k + 1, o.outcome), c));
                }
            }
        }
    }
    out
}

/// Numeric reading of a rendered leaf, independent of the type tag (tags are C03's business):
/// integers exactly, reals as f64 (an f32 widens exactly).
#[derive(PartialEq, Debug)]
enum Num {
    Int(i128),
    F(u64),
    Other(String),
}

fn leaf_num(s: &str) -> Num {
    let (tag, mag) = parse_leaf(s);
    match tag.as_str() {
        "SInt" | "Int" | "DInt" | "LInt" | "USInt" | "UInt" | "UDInt" | "ULInt" => match mag {
            Some(m) => Num::Int(m),
            None => Num::Other(s.to_string()),
        },
        "Real" | "LReal" => {
            // "Real(1.5/0x3fc00000)"
            let hex = s.rsplit("/0x").next().unwrap_or("").trim_end_matches(')');
            match u64::from_str_radix(hex, 16) {
                Ok(bits) if tag == "Real" => Num::F((f32::from_bits(bits as u32) as f64).to_bits()),
                Ok(bits) => Num::F(bits),
                Err(_) => Num::Other(s.to_string()),
            }
        }
        _ => Num::Other(s.to_string()),
    }
}

fn same_value(a: &str, b: &str) -> bool {
    match (leaf_num(a), leaf_num(b)) {
        (Num::Int(x), Num::Int(y)) => x == y,
        (Num::F(x), Num::F(y)) => x == y,
        (Num::Int(x), Num::F(y)) | (Num::F(y), Num::Int(x)) => (x as f64).to_bits() == y,
        (Num::Other(x), Num::Other(y)) => x == y,
        _ => false,
    }
}

pub fn judge_c02(c: &Case, r: &ProgResult, excluded: &mut u64) -> Vec<Violation> {
    let mut out = Vec::new();
    if !c.reference {
        return out;
    }
    let ProgResult::Ran(obs) = r else { return out };
    let ff = ff(c);
    let reference = reference_run(&c.prog, c.cycles);
    for (k, exp) in reference.iter().enumerate() {
        let Some((exp_outcome, exp_state)) = exp else {
            *excluded += 1;
            break;
        };
        let Some(o) = obs.get(k) else {
            // the runtime stopped earlier (fault/panic in an earlier cycle already reported)
            break;
        };
        if o.outcome.starts_with("panic:") {
            break; // C01's business
        }
        if exp_outcome == "fault:ModuloByZero" {
            // IEC defines MOD by zero as 0 in some editions and the docs list it as an error:
            // accept a modulo/division fault; do not compare an "ok" outcome
            if o.outcome == "ok" {
                *excluded += 1;
                break;
            }
            if o.outcome != "fault:ModuloByZero" && o.outcome != "fault:DivisionByZero" {
                out.push(viol(format!("C02/fault-kind/{ff}"), format!("cycle {}: reference faults with ModuloByZero, runtime reports {}", k + 1, o.outcome), c));
            }
            break;
        }
        if &o.outcome != exp_outcome {
            let clause = if exp_outcome == "ok" {
                "fault-extra"
            } else if o.outcome == "ok" {
                "fault-missing"
            } else {
                "fault-kind"
            };
            out.push(viol(format!("C02/{clause}/{ff}"), format!("cycle {}: reference outcome {exp_outcome}, runtime outcome {}", k + 1, o.outcome), c));
            break;
        }
        let mut diffs = Vec::new();
        for (path, ev) in exp_state {
            let Some(ev) = ev else { continue };
            match o.dump.get(path) {
                Some(av) => {
                    if !same_value(av, ev) {
                        diffs.push(format!("{path}: reference {ev}, runtime {av}"));
                    }
                }
                None => diffs.push(format!("{path}: missing in the runtime state")),
            }
        }
        if !diffs.is_empty() {
            out.push(viol(
                format!("C02/value/{ff}"),
                format!("cycle {} ({}): {}", k + 1, o.outcome, diffs.iter().take(3).cloned().collect::<Vec<_>>().join("; ")),
                c,
            ));
            break;
        }
        if exp_outcome != "ok" {
            break;
        }
    }
    out
}

pub fn judge_c03(c: &Case, r: &ProgResult) -> Vec<Violation> {
    let mut out = Vec::new();
    let ProgResult::Ran(obs) = r else { return out };
    let decl = declared_types(&c.prog);
    for (k, o) in obs.iter().enumerate() {
        if o.outcome.starts_with("panic:") {
            break;
        }
        for (path, ty, tag, in_range) in tag_violations(&decl, &o.dump) {
            let clause = if in_range { "tag" } else { "range" };
            out.push(viol(
                format!("C03/{clause}/{}:{}<-{}", ff(c), ty.name(), tag),
                format!("after cycle {} ({}), {path} declared {} holds {}", k + 1, o.outcome, ty.name(), o.dump.get(&path).cloned().unwrap_or_default()),
                c,
            ));
        }
        if !out.is_empty() {
            break;
        }
    }
    out
}

pub fn run_engine(ctx: &Ctx, prop: &str) -> EngineResult {
    quiet_panics();
    let mut rep = Report::new("exploration");
    let thorough = ctx.tier == Tier::Thorough;
    let deadline = Instant::now() + Duration::from_secs(ctx.tier.pick(50, 800));
    let mut cases = families::corpus(thorough);
    if prop == "C01" {
        cases.extend(families::f5_recursion());
    }
    if prop == "C02" {
        cases.retain(|c| c.reference);
    }
    let results = run_corpus(ctx.threads, &cases, Some(deadline))?;
    let mut ran = 0u64;
    let mut rejected = 0u64;
    let mut not_run = 0u64;
    let mut distinct: HashSet<u64> = HashSet::new();
    let mut per_family: BTreeMap<String, (u64, u64)> = BTreeMap::new();
    let mut outcomes: BTreeMap<String, u64> = BTreeMap::new();
    let mut excluded = 0u64;
    let mut compared = 0u64;
    let mut rejected_samples: Vec<Value> = Vec::new();
    // distinct (family, reason) pairs of rejections: a harness-side refusal or a family that is
    // rejected wholesale must be visible
    let mut reject_reasons: BTreeMap<(String, String), u64> = BTreeMap::new();
    for (c, r) in cases.iter().zip(&results) {
        let Some(r) = r else {
            not_run += 1;
            continue;
        };
        let fam = per_family.entry(c.family.to_string()).or_insert((0, 0));
        match r {
            ProgResult::Rejected(e) => {
                rejected += 1;
                fam.1 += 1;
                *reject_reasons.entry((c.family.to_string(), clip(e, 90))).or_insert(0) += 1;
                if rejected_samples.len() < 5 {
                    rejected_samples.push(json!({"feature": c.feature, "error": clip(e, 120)}));
                }
                continue;
            }
            ProgResult::Ran(obs) => {
                for o in obs {
                    let key = if o.outcome.starts_with("panic:") { "panic".to_string() } else { o.outcome.clone() };
                    *outcomes.entry(key).or_insert(0) += 1;
                }
            }
            ProgResult::Abort(_) => *outcomes.entry("abort".into()).or_insert(0) += 1,
            ProgResult::Hang => *outcomes.entry("hang".into()).or_insert(0) += 1,
        }
        ran += 1;
        fam.0 += 1;
        distinct.insert(crate::engines::c12::hash64(&c.text()));
        match prop {
            "C01" => rep.violations_from(judge_c01(c, r)),
            "C02" => {
                let before = excluded;
                let vs = judge_c02(c, r, &mut excluded);
                if excluded == before {
                    compared += 1;
                }
                rep.violations_from(vs);
            }
            _ => rep.violations_from(judge_c03(c, r)),
        }
        if rep.samples.len() < 4 && (ran == 1 || ran % 2000 == 0) {
            rep.sample(json!({"family": c.family, "feature": c.feature, "text": c.text()}));
        }
    }
    if prop == "C03" {
        let (n, vs) = super::dbgwrite::run();
        if vs.iter().any(|v| v.signature.starts_with("C03/machinery")) {
            return machinery(format!("debugger-write family could not run: {}", vs[0].what));
        }
        rep.set("debugger_write_cases", n);
        rep.violations_from(vs);
        let (n, vs) = super::iolatch::run();
        if vs.iter().any(|v| v.signature.starts_with("C03/machinery")) {
            return machinery(format!("I/O latch family could not run: {}", vs[0].what));
        }
        rep.set("io_latch_cases", n);
        rep.violations_from(vs);
    }
    for (f, (a, _)) in &per_family {
        if *a == 0 {
            return machinery(format!("family {f}: no program accepted by the compiler (vacuous)"));
        }
    }
    if ran < 100 {
        return machinery(format!("only {ran} programs ran"));
    }
    if not_run > 0 {
        rep.cap(format!("{not_run} programs not executed (wall cap)"));
    }
    rep.set("evaluations", ran + rejected);
    rep.set("distinct_nontrivial", distinct.len() as u64);
    rep.set("rule", "families F1..F8 of the ST-core corpus (binary/unary operator matrices over boundary values of all integer types and reals, assignment/conversion matrix, control-flow shapes, calls, FB instances, precedence triples, aggregate indexing), each enumerated completely; a case is non-trivial if the compiler accepted it and at least one cycle ran; distinct by program text");
    rep.set("programs_accepted_and_run", ran);
    rep.set("programs_rejected_by_compiler", rejected);
    rep.set("per_family_accepted_rejected", json!(per_family.iter().map(|(k, v)| json!({"family": k, "accepted": v.0, "rejected": v.1})).collect::<Vec<_>>()));
    rep.set("cycle_outcomes", json!(outcomes));
    rep.set("rejected_samples", json!(rejected_samples));
    {
        let mut top: Vec<(&(String, String), &u64)> = reject_reasons.iter().collect();
        top.sort_by(|a, b| b.1.cmp(a.1));
        // the two most frequent reasons of every family
        let mut per_fam: BTreeMap<&str, usize> = BTreeMap::new();
        let top: Vec<_> = top
            .into_iter()
            .filter(|((f, _), _)| {
                let k = per_fam.entry(f.as_str()).or_insert(0);
                *k += 1;
                *k <= 2
            })
            .collect();
        rep.set("rejection_reasons_top", json!(top.iter().map(|((f, e), n)| json!({"family": f, "reason": e, "count": n})).collect::<Vec<_>>()));
        if let Some(((f, e), n)) = reject_reasons.iter().find(|((_, e), _)| e.starts_with("harness:")) {
            return machinery(format!("{n} programs of family {f} could not be driven by the harness: {e}"));
        }
        for (f, (acc, rej)) in &per_family {
            if *acc == 0 && *rej > 0 {
                return machinery(format!("family {f} is vacuous: all {rej} programs were rejected by the compiler"));
            }
        }
    }
    if prop == "C02" {
        rep.set("programs_compared_with_reference", compared);
        rep.set("programs_left_undefined_by_reference", excluded);
        if compared < 100 {
            return machinery(format!("only {compared} programs compared with the reference"));
        }
    }
    rep.set("exhaustive", not_run == 0);
    rep.assume("small scope: everything in the enumerated families, nothing beyond");
    Ok(rep)
}

pub fn replay(prop: &str, case: &Value) -> Vec<Violation> {
    if case["kind"] == "io-latch" {
        let (_, vs) = super::iolatch::run();
        return vs
            .into_iter()
            .filter(|v| v.case["addr"] == case["addr"] && v.case["value"] == case["value"] && v.case["type"] == case["type"])
            .collect();
    }
    if case["kind"] == "debug-write" {
        let (_, vs) = super::dbgwrite::run();
        return vs
            .into_iter()
            .filter(|v| v.case["api"] == case["api"] && v.case["value"] == case["value"] && v.case["type"] == case["type"])
            .collect();
    }
    let Ok(prog) = serde_json::from_value::<super::ast::Prog>(case["prog"].clone()) else { return Vec::new() };
    let family: &'static str = Box::leak(case["family"].as_str().unwrap_or("?").to_string().into_boxed_str());
    let c = Case {
        family,
        feature: case["feature"].as_str().unwrap_or("").to_string(),
        prog,
        cycles: case["cycles"].as_u64().unwrap_or(1) as usize,
        reference: case["reference"].as_bool().unwrap_or(false),
        raw: case["raw"].as_str().map(str::to_string),
    };
    let Ok(results) = run_corpus(1, std::slice::from_ref(&c), None) else { return Vec::new() };
    let Some(Some(r)) = results.first() else { return Vec::new() };
    match prop {
        "C01" => judge_c01(&c, r),
        "C02" => judge_c02(&c, r, &mut 0),
        _ => judge_c03(&c, r),
    }
}
