//! Program families F1..F8 of the ST-core corpus. Every family is a finite set that is
//! enumerated completely and deterministically, simplest first.

use super::ast::*;
use super::run::Case;

fn int_bounds(t: Ty) -> Vec<i128> {
    let mut v = vec![0, 1, 2, t.max(), t.max() - 1];
    if t.is_signed() {
        v.extend([-1, t.min(), t.min() + 1]);
    }
    v
}

fn small_bounds(t: Ty) -> Vec<i128> {
    let mut v = vec![0, 1, t.max()];
    if t.is_signed() {
        v.extend([-1, t.min()]);
    }
    v
}

fn prog(vars: Vec<Decl>, body: Vec<S>) -> Prog {
    Prog { vars, body, ..Default::default() }
}

fn case(family: &'static str, feature: String, prog: Prog, cycles: usize, reference: bool) -> Case {
    Case { family, feature, prog, cycles, reference, raw: None }
}

fn raw(family: &'static str, feature: &str, text: &str, cycles: usize) -> Case {
    Case { family, feature: feature.to_string(), prog: Prog::default(), cycles, reference: false, raw: Some(text.to_string()) }
}

fn same_chain(a: Ty, b: Ty) -> bool {
    (a.is_signed() && b.is_signed()) || (a.is_unsigned() && b.is_unsigned())
}

fn wider(a: Ty, b: Ty) -> Ty {
    if a.rank() >= b.rank() {
        a
    } else {
        b
    }
}

/// F1: binary-operator matrix on integers (same type and same-chain mixed ranks) and reals.
pub fn f1(thorough: bool) -> Vec<Case> {
    let mut out = Vec::new();
    // integers: r := a OP b with typed operands in variables
    for &ta in &INTS {
        for &tb in &INTS {
            let clean = same_chain(ta, tb);
            if !clean && !thorough && !(ta.bits() == 16 || tb.bits() == 16) {
                // mixed signedness is outside the reference; quick tier keeps a slice for C01/C03
                continue;
            }
            let tr = if clean { wider(ta, tb) } else { Ty::LInt };
            let (ba, bb) = if ta == tb || thorough { (int_bounds(ta), int_bounds(tb)) } else { (small_bounds(ta), small_bounds(tb)) };
            for &x in &ba {
                for &y in &bb {
                    // the LINT minimum cannot be written as a literal: start one above and step down
                    let lmin = Ty::LInt.min();
                    let fix = |t: Ty, v: i128| if t == Ty::LInt && v == lmin { v + 1 } else { v };
                    let mut pre: Vec<S> = Vec::new();
                    if ta == Ty::LInt && x == lmin {
                        pre.push(assign("a", bin(Op::Sub, var("a"), lit(int(Ty::LInt, 1)))));
                    }
                    if tb == Ty::LInt && y == lmin {
                        pre.push(assign("b", bin(Op::Sub, var("b"), lit(int(Ty::LInt, 1)))));
                    }
                    let decls = |r: Decl| vec![Decl::init("a", int(ta, fix(ta, x))), Decl::init("b", int(tb, fix(tb, y))), r];
                    for op in ARITH {
                        let mut body = pre.clone();
                        body.push(assign("r", bin(op, var("a"), var("b"))));
                        out.push(case(
                            "F1",
                            format!("{}:{}x{}:var", op.name(), ta.name(), tb.name()),
                            prog(decls(Decl::new("r", tr)), body),
                            1,
                            clean,
                        ));
                    }
                    // all six comparisons in one program (they cannot fault)
                    let mut vars = vec![Decl::init("a", int(ta, fix(ta, x))), Decl::init("b", int(tb, fix(tb, y)))];
                    let mut body = pre.clone();
                    for (i, op) in CMP.iter().enumerate() {
                        vars.push(Decl::new(&format!("c{i}"), Ty::Bool));
                        body.push(assign(&format!("c{i}"), bin(*op, var("a"), var("b"))));
                    }
                    out.push(case("F1", format!("Cmp:{}x{}:var", ta.name(), tb.name()), prog(vars, body), 1, clean));
                }
            }
        }
    }
    // typed literal operands (same type), one op per program
    for &t in &INTS {
        for &x in &small_bounds(t) {
            for &y in &small_bounds(t) {
                for op in ARITH {
                    out.push(case(
                        "F1",
                        format!("{}:{}x{}:typedlit", op.name(), t.name(), t.name()),
                        prog(vec![Decl::new("r", t)], vec![assign("r", bin(op, lit(int(t, x)), lit(int(t, y))))]),
                        1,
                        true,
                    ));
                }
            }
        }
    }
    // untyped literal on the right: r := a OP <literal> (known-delicate stratum)
    for &t in &INTS {
        for &x in &small_bounds(t) {
            for y in [0i128, 1, 2, 100] {
                for op in ARITH {
                    out.push(case(
                        "F1u",
                        format!("{}:{}xuntyped", op.name(), t.name()),
                        prog(vec![Decl::init("a", int(t, x)), Decl::new("r", t)], vec![assign("r", bin(op, var("a"), ulit(int(Ty::DInt, y))))]),
                        1,
                        t.is_signed(),
                    ));
                }
            }
        }
    }
    // reals
    let r32: [f32; 9] = [0.0, 1.0, -1.5, 0.1, 3.0e38, 1.0e-38, 16_777_216.0, 3.0, -0.0];
    for &x in &r32 {
        for &y in &r32 {
            for op in [Op::Add, Op::Sub, Op::Mul, Op::Div] {
                out.push(case(
                    "F1",
                    format!("{}:REALxREAL:var", op.name()),
                    prog(vec![Decl::init("a", V::R(x)), Decl::init("b", V::R(y)), Decl::new("r", Ty::Real)], vec![assign("r", bin(op, var("a"), var("b")))]),
                    1,
                    true,
                ));
                out.push(case(
                    "F1",
                    format!("{}:LREALxLREAL:var", op.name()),
                    prog(
                        vec![Decl::init("a", V::L(x as f64)), Decl::init("b", V::L(y as f64)), Decl::new("r", Ty::LReal)],
                        vec![assign("r", bin(op, var("a"), var("b")))],
                    ),
                    1,
                    true,
                ));
            }
            let mut vars = vec![Decl::init("a", V::R(x)), Decl::init("b", V::R(y))];
            let mut body = Vec::new();
            for (i, op) in CMP.iter().enumerate() {
                vars.push(Decl::new(&format!("c{i}"), Ty::Bool));
                body.push(assign(&format!("c{i}"), bin(*op, var("a"), var("b"))));
            }
            out.push(case("F1", "Cmp:REALxREAL:var".into(), prog(vars, body), 1, true));
        }
    }
    // booleans: all operand pairs, all logic ops + NOT, plus short-circuit with a faulting right operand
    for x in [false, true] {
        for y in [false, true] {
            let mut vars = vec![Decl::init("a", V::B(x)), Decl::init("b", V::B(y))];
            let mut body = Vec::new();
            for (i, op) in LOGIC.iter().chain([Op::Eq, Op::Ne].iter()).enumerate() {
                vars.push(Decl::new(&format!("c{i}"), Ty::Bool));
                body.push(assign(&format!("c{i}"), bin(*op, var("a"), var("b"))));
            }
            out.push(case("F1", "Logic:BOOLxBOOL:var".into(), prog(vars, body), 1, true));
        }
        for op in [Op::And, Op::Or] {
            // right operand divides by zero: observable short-circuit
            let rhs = bin(Op::Eq, bin(Op::Div, lit(int(Ty::Int, 1)), var("z")), lit(int(Ty::Int, 0)));
            out.push(case(
                "F1",
                format!("ShortCircuit:{}:faulting-rhs", op.name()),
                prog(
                    vec![Decl::init("a", V::B(x)), Decl::init("z", int(Ty::Int, 0)), Decl::new("r", Ty::Bool), Decl::init("after", int(Ty::Int, 0))],
                    vec![assign("r", bin(op, var("a"), rhs)), assign("after", lit(int(Ty::Int, 1)))],
                ),
                1,
                true,
            ));
        }
    }
    out
}

/// F2: unary matrix.
pub fn f2() -> Vec<Case> {
    let mut out = Vec::new();
    for &t in &SIGNED {
        for &x in &int_bounds(t) {
            out.push(case(
                "F2",
                format!("Neg:{}:var", t.name()),
                prog(vec![Decl::init("a", int(t, x)), Decl::new("r", t)], vec![assign("r", E::Neg(Box::new(var("a"))))]),
                1,
                true,
            ));
            out.push(case(
                "F2",
                format!("Neg:{}:typedlit", t.name()),
                prog(vec![Decl::new("r", t)], vec![assign("r", E::Neg(Box::new(lit(int(t, x)))))]),
                1,
                true,
            ));
        }
    }
    // LINT minimum cannot be written as a literal: compute it, then negate
    out.push(case(
        "F2",
        "Neg:LINT:computed-min".into(),
        prog(
            vec![Decl::init("a", int(Ty::LInt, -9_223_372_036_854_775_807)), Decl::new("r", Ty::LInt)],
            vec![assign("a", bin(Op::Sub, var("a"), lit(int(Ty::LInt, 1)))), assign("r", E::Neg(Box::new(var("a"))))],
        ),
        1,
        true,
    ));
    for x in [0.0f32, 1.5, -2.25] {
        out.push(case(
            "F2",
            "Neg:REAL:var".into(),
            prog(vec![Decl::init("a", V::R(x)), Decl::new("r", Ty::Real)], vec![assign("r", E::Neg(Box::new(var("a"))))]),
            1,
            true,
        ));
        out.push(case(
            "F2",
            "Neg:LREAL:var".into(),
            prog(vec![Decl::init("a", V::L(x as f64)), Decl::new("r", Ty::LReal)], vec![assign("r", E::Neg(Box::new(var("a"))))]),
            1,
            true,
        ));
    }
    for x in [false, true] {
        out.push(case(
            "F2",
            "Not:BOOL:var".into(),
            prog(vec![Decl::init("a", V::B(x)), Decl::new("r", Ty::Bool)], vec![assign("r", E::Not(Box::new(var("a"))))]),
            1,
            true,
        ));
    }
    // unsigned negation and bit-string NOT: outside the reference, kept for C01/C03
    for &t in &UNSIGNED {
        out.push(case(
            "F2w",
            format!("Neg:{}:var", t.name()),
            prog(vec![Decl::init("a", int(t, 1)), Decl::new("r", t)], vec![assign("r", E::Neg(Box::new(var("a"))))]),
            1,
            false,
        ));
    }
    for &t in &BITS {
        for x in [0u64, 1, t.max_bits()] {
            out.push(case(
                "F2w",
                format!("Not:{}:var", t.name()),
                prog(vec![Decl::init("a", V::Bits(t, x)), Decl::new("r", t)], vec![assign("r", E::Not(Box::new(var("a"))))]),
                1,
                false,
            ));
        }
    }
    out
}

const NUMERIC: [Ty; 10] = [Ty::SInt, Ty::Int, Ty::DInt, Ty::LInt, Ty::USInt, Ty::UInt, Ty::UDInt, Ty::ULInt, Ty::Real, Ty::LReal];

fn sample_values(t: Ty) -> Vec<V> {
    match t {
        Ty::Real => vec![V::R(0.0), V::R(1.5), V::R(-2.0), V::R(16_777_217.0)],
        Ty::LReal => vec![V::L(0.0), V::L(1.5), V::L(-2.0), V::L(1.0e300)],
        Ty::Bool => vec![V::B(false), V::B(true)],
        Ty::Time => vec![V::T(0), V::T(1_000_000), V::T(3_600_000_000_000)],
        t if t.is_bits() => vec![V::Bits(t, 0), V::Bits(t, 1), V::Bits(t, t.max_bits())],
        t => small_bounds(t).into_iter().map(|x| int(t, x)).collect(),
    }
}

/// F3: assignment / conversion matrix: plain variables, array elements, struct fields.
pub fn f3() -> Vec<Case> {
    let mut out = Vec::new();
    let all: Vec<Ty> = NUMERIC.iter().copied().chain([Ty::Bool, Ty::Time]).chain(BITS).collect();
    for &d in &all {
        for &s in &all {
            let widening = d == s
                || (same_chain(s, d) && d.rank() >= s.rank() && s.is_int() && d.is_int())
                || (s.is_int() && d.is_real())
                || (s == Ty::Real && d == Ty::LReal);
            for v in sample_values(s) {
                // plain variable
                out.push(case(
                    "F3",
                    format!("assign:{}<-{}:var", d.name(), s.name()),
                    prog(vec![Decl::init("s", v), Decl::new("d", d)], vec![assign("d", var("s"))]),
                    2,
                    widening,
                ));
                // array element and struct field targets
                out.push(case(
                    "F3",
                    format!("index:{}<-{}:var", d.name(), s.name()),
                    prog(
                        vec![Decl::init("s", v), Decl { name: "arr".into(), ty: TyX::Arr(0, 2, d), init: None }],
                        vec![S::Assign(LV::Idx("arr".into(), vec![lit(int(Ty::Int, 1))]), var("s"))],
                    ),
                    2,
                    widening,
                ));
                let mut p = prog(
                    vec![Decl::init("s", v), Decl { name: "st".into(), ty: TyX::Struct("Pair".into()), init: None }],
                    vec![S::Assign(LV::Fld("st".into(), "f".into()), var("s"))],
                );
                p.structs.push(StructDef { name: "Pair".into(), fields: vec![("f".into(), d), ("g".into(), Ty::Int)] });
                out.push(case("F3", format!("field:{}<-{}:var", d.name(), s.name()), p, 2, widening));
            }
        }
        // untyped literals
        if d.is_int() || d.is_real() {
            for x in [0i128, 1, 100] {
                out.push(case(
                    "F3",
                    format!("assign:{}<-untyped-int", d.name()),
                    prog(vec![Decl::new("d", d)], vec![assign("d", ulit(int(Ty::DInt, x)))]),
                    1,
                    true,
                ));
            }
        }
        if d.is_real() {
            out.push(case(
                "F3",
                format!("assign:{}<-untyped-real", d.name()),
                prog(vec![Decl::new("d", d)], vec![assign("d", ulit(V::L(1.5)))]),
                1,
                true,
            ));
        }
    }
    // counter idiom x := x + 1 for every integer type, three cycles
    for &t in &INTS {
        for start in [0i128, t.max() - 1] {
            out.push(case(
                "F3u",
                format!("increment:{}:untyped", t.name()),
                prog(vec![Decl::init("x", int(t, start))], vec![assign("x", bin(Op::Add, var("x"), ulit(int(Ty::DInt, 1))))]),
                3,
                t.is_signed(),
            ));
            out.push(case(
                "F3",
                format!("increment:{}:typed", t.name()),
                prog(vec![Decl::init("x", int(t, start))], vec![assign("x", bin(Op::Add, var("x"), lit(int(t, 1))))]),
                3,
                true,
            ));
        }
    }
    // REAL variable assigned an INT, then divided (the root example of the property)
    for &t in &[Ty::Real, Ty::LReal] {
        out.push(case(
            "F3u",
            format!("int-into-{}-then-div:untyped", t.name()),
            prog(
                vec![Decl::init("i", int(Ty::Int, 7)), Decl::new("r", t)],
                vec![assign("r", var("i")), assign("r", bin(Op::Div, var("r"), ulit(int(Ty::DInt, 2))))],
            ),
            2,
            true,
        ));
        let two = if t == Ty::Real { V::R(2.0) } else { V::L(2.0) };
        out.push(case(
            "F3",
            format!("int-into-{}-then-div:typed", t.name()),
            prog(
                vec![Decl::init("i", int(Ty::Int, 7)), Decl::new("r", t)],
                vec![assign("r", var("i")), assign("r", bin(Op::Div, var("r"), lit(two)))],
            ),
            2,
            true,
        ));
    }
    out
}

fn inc(n: &str) -> S {
    assign(n, bin(Op::Add, var(n), lit(int(Ty::DInt, 1))))
}

fn counters(n: usize) -> Vec<Decl> {
    (0..n).map(|i| Decl::init(&format!("k{i}"), int(Ty::DInt, 0))).collect()
}

/// F4: control-flow shapes.
pub fn f4(thorough: bool) -> Vec<Case> {
    let mut out = Vec::new();
    let b = |x: bool| lit(V::B(x));
    // IF / ELSIF / ELSE: all truth assignments of up to three conditions
    for c1 in [false, true] {
        for c2 in [false, true] {
            for c3 in [false, true] {
                let mut vars = counters(4);
                vars.extend([Decl::init("p", V::B(c1)), Decl::init("q", V::B(c2)), Decl::init("w", V::B(c3))]);
                let body = vec![
                    S::If(vec![(var("p"), vec![inc("k0")])], None),
                    S::If(vec![(var("p"), vec![inc("k1")])], Some(vec![inc("k2")])),
                    S::If(
                        vec![(var("p"), vec![inc("k0")]), (var("q"), vec![inc("k1")]), (var("w"), vec![inc("k2")])],
                        Some(vec![inc("k3")]),
                    ),
                    S::If(vec![(bin(Op::And, var("p"), E::Not(Box::new(var("q")))), vec![S::If(vec![(var("w"), vec![inc("k3")])], Some(vec![inc("k0")]))])], None),
                ];
                let _ = b;
                out.push(case("F4", "if:elsif-else-nested".into(), prog(vars, body), 2, true));
            }
        }
    }
    // CASE: selector of every integer type
    for &t in &INTS {
        let mut sels = vec![0i128, 1, 2, 3, 5, 7, 9, t.max()];
        if t.is_signed() {
            sels.extend([-1, t.min()]);
        }
        for &sv in &sels {
            for with_else in [false, true] {
                let mut vars = counters(4);
                vars.push(Decl::init("sel", int(t, sv)));
                let arms = vec![
                    (vec![Label::One(1)], vec![inc("k0")]),
                    (vec![Label::One(2), Label::One(3)], vec![inc("k1")]),
                    (vec![Label::Range(5, 8)], vec![inc("k2")]),
                    // overlapping label: the first matching arm wins
                    (vec![Label::One(7), Label::One(0)], vec![inc("k3")]),
                ];
                let els = if with_else { Some(vec![inc("k3"), inc("k3")]) } else { None };
                out.push(case(
                    "F4",
                    format!("case:selector={}", t.name()),
                    prog(vars, vec![S::Case(var("sel"), arms, els)]),
                    2,
                    true,
                ));
            }
        }
    }
    // FOR: control variable of every integer type; start/end/step menus
    for &t in &INTS {
        let lo: Vec<i128> = if t.is_signed() { vec![-2, 0, 2] } else { vec![0, 2] };
        let steps: Vec<Option<i128>> = if t.is_signed() { vec![None, Some(1), Some(2), Some(-1), Some(0)] } else { vec![None, Some(1), Some(2), Some(0)] };
        for &from in &lo {
            for &to in &lo {
                for by in &steps {
                    for shape in 0..4 {
                        if !thorough && shape >= 2 && t.bits() != 16 {
                            continue;
                        }
                        let mut vars = counters(2);
                        vars.push(Decl::new("i", t));
                        let mid = int(t, (from + to) / 2);
                        let body = match shape {
                            0 => vec![inc("k0")],
                            1 => vec![S::If(vec![(bin(Op::Eq, var("i"), lit(mid)), vec![S::Exit])], None), inc("k0")],
                            2 => vec![inc("k0"), S::If(vec![(bin(Op::Eq, var("i"), lit(mid)), vec![S::Continue])], None), inc("k1")],
                            _ => vec![inc("k0"), S::Continue, inc("k1")],
                        };
                        let f = S::For {
                            var: "i".into(),
                            from: lit(int(t, from)),
                            to: lit(int(t, to)),
                            by: by.map(|b| lit(int(t, b))),
                            body,
                        };
                        // define the control variable afterwards (its value after the loop is left open)
                        let feature = format!(
                            "for:{}:{}:{}",
                            t.name(),
                            match by {
                                None => "by-default",
                                Some(0) => "by-zero",
                                Some(x) if *x < 0 => "by-negative",
                                _ => "by-positive",
                            },
                            ["plain", "exit", "continue-if", "continue"][shape]
                        );
                        out.push(case("F4", feature, prog(vars, vec![f, assign("i", lit(int(t, 0)))]), 2, true));
                    }
                }
            }
        }
        // loops that touch the end of the control type's range (outcome class only)
        for (from, to, by) in [(t.max() - 2, t.max(), 1i128), (t.max() - 1, t.max(), 2)] {
            let mut vars = counters(1);
            vars.push(Decl::new("i", t));
            let f = S::For { var: "i".into(), from: lit(int(t, from)), to: lit(int(t, to)), by: Some(lit(int(t, by))), body: vec![inc("k0")] };
            out.push(case("F4w", format!("for:{}:range-end", t.name()), prog(vars, vec![f]), 1, false));
        }
        if t.is_signed() {
            let mut vars = counters(1);
            vars.push(Decl::new("i", t));
            let f = S::For { var: "i".into(), from: lit(int(t, t.min() + 1)), to: lit(int(t, t.min())), by: Some(lit(int(t, -1))), body: vec![inc("k0")] };
            out.push(case("F4w", format!("for:{}:range-start", t.name()), prog(vars, vec![f]), 1, false));
        }
    }
    // negative step on an unsigned control variable (outcome class only)
    for &t in &UNSIGNED {
        let mut vars = counters(1);
        vars.push(Decl::new("i", t));
        vars.push(Decl::init("st", int(Ty::Int, -1)));
        let f = S::For { var: "i".into(), from: lit(int(t, 3)), to: lit(int(t, 1)), by: Some(var("st")), body: vec![inc("k0")] };
        out.push(case("F4w", format!("for:{}:negative-step-variable", t.name()), prog(vars, vec![f]), 1, false));
        let mut vars = counters(1);
        vars.push(Decl::new("i", t));
        let f = S::For { var: "i".into(), from: lit(int(t, 3)), to: lit(int(t, 1)), by: Some(ulit(int(Ty::DInt, -1))), body: vec![inc("k0")] };
        out.push(case("F4w", format!("for:{}:negative-step-literal", t.name()), prog(vars, vec![f]), 1, false));
    }
    // FOR with untyped bounds (the common idiom): running, single-iteration and empty ranges;
    // the control variable is left as the loop leaves it where that value is defined (empty range:
    // the start value has been assigned, nothing else happened)
    for &t in &INTS {
        for (from, to, shape) in [(1i128, 3i128, "runs"), (1, 1, "once"), (3, 1, "empty")] {
            let mut vars = counters(1);
            vars.push(Decl::new("i", t));
            vars.push(Decl::init("hi", int(t, to)));
            let f = S::For { var: "i".into(), from: ulit(int(Ty::DInt, from)), to: ulit(int(Ty::DInt, to)), by: None, body: vec![inc("k0")] };
            out.push(case("F4u", format!("for:{}:untyped-bounds:{shape}", t.name()), prog(vars.clone(), vec![f, assign("i", ulit(int(Ty::DInt, 0)))]), 2, true));
            // same loop, control variable not overwritten afterwards (tags only) and a variable end bound
            let f2 = S::For { var: "i".into(), from: ulit(int(Ty::DInt, from)), to: var("hi"), by: None, body: vec![inc("k0")] };
            out.push(case("F4w", format!("for:{}:untyped-start-variable-end:{shape}", t.name()), prog(vars, vec![f2]), 2, false));
        }
    }
    // loop kind x control statement x trigger iteration x limit (incl. the iteration at which the
    // loop condition flips), and every (outer, inner) nesting with the control statement inside
    let dl = |x: i128| lit(int(Ty::DInt, x));
    let mk_loop = |kind: &str, limit: i128, trig: i128, ctl: Option<S>, nvar: &str, pre: &str, post: &str, extra: Vec<S>| -> Vec<S> {
        let mut body = vec![inc(pre)];
        let cond_var = if kind == "for" { format!("f{nvar}") } else { nvar.to_string() };
        if let Some(c) = ctl {
            body.push(S::If(vec![(bin(Op::Eq, var(&cond_var), dl(trig)), vec![c])], None));
        }
        body.extend(extra);
        body.push(inc(post));
        match kind {
            "for" => vec![
                S::For { var: cond_var.clone(), from: dl(1), to: dl(limit), by: None, body },
                assign(&cond_var, dl(0)),
            ],
            "while" => {
                let mut b = vec![assign(nvar, bin(Op::Add, var(nvar), dl(1)))];
                b.extend(body);
                vec![assign(nvar, dl(0)), S::While(bin(Op::Lt, var(nvar), dl(limit)), b)]
            }
            _ => {
                let mut b = vec![assign(nvar, bin(Op::Add, var(nvar), dl(1)))];
                b.extend(body);
                vec![assign(nvar, dl(0)), S::Repeat(b, bin(Op::Ge, var(nvar), dl(limit)))]
            }
        }
    };
    let loop_vars = || {
        let mut v = counters(4);
        for n in ["n", "m", "fn", "fm"] {
            v.push(Decl::init(n, int(Ty::DInt, 0)));
        }
        v
    };
    for kind in ["for", "while", "repeat"] {
        for (cname, ctl) in [("none", None), ("exit", Some(S::Exit)), ("continue", Some(S::Continue))] {
            for limit in 1..=3i128 {
                for trig in 1..=limit {
                    if ctl.is_none() && trig > 1 {
                        continue;
                    }
                    let body = mk_loop(kind, limit, trig, ctl.clone(), "n", "k0", "k1", vec![]);
                    let pos = if trig == limit { "last" } else if trig == 1 { "first" } else { "middle" };
                    out.push(case("F4", format!("loopctl:{kind}:{cname}:{pos}"), prog(loop_vars(), body), 2, true));
                }
            }
        }
    }
    for outer in ["for", "while", "repeat"] {
        for inner in ["for", "while", "repeat"] {
            for (cname, ctl) in [("exit", S::Exit), ("continue", S::Continue)] {
                for trig in [1i128, 2] {
                    // the control statement sits in the inner loop and must not affect the outer one
                    let inner_stmts = mk_loop(inner, 2, trig, Some(ctl.clone()), "m", "k2", "k3", vec![]);
                    let body = mk_loop(outer, 2, 9, None, "n", "k0", "k1", inner_stmts);
                    out.push(case("F4", format!("loopctl-nested:{outer}>{inner}:{cname}"), prog(loop_vars(), body), 2, true));
                }
            }
        }
    }
    // WHILE / REPEAT with EXIT / CONTINUE, nested loops, RETURN
    for limit in [0i128, 1, 3] {
        for shape in 0..6 {
            let mut vars = counters(3);
            vars.push(Decl::init("n", int(Ty::DInt, 0)));
            vars.push(Decl::init("m", int(Ty::DInt, 0)));
            let lim = lit(int(Ty::DInt, limit));
            let cond = bin(Op::Lt, var("n"), lim.clone());
            let step = assign("n", bin(Op::Add, var("n"), lit(int(Ty::DInt, 1))));
            let body = match shape {
                0 => vec![S::While(cond, vec![step, inc("k0")])],
                1 => vec![S::Repeat(vec![step, inc("k0")], bin(Op::Ge, var("n"), lim))],
                2 => vec![S::While(lit(V::B(true)), vec![S::If(vec![(bin(Op::Ge, var("n"), lim), vec![S::Exit])], None), step, inc("k0")])],
                3 => vec![S::While(cond, vec![step, S::If(vec![(bin(Op::Eq, var("n"), lit(int(Ty::DInt, 2))), vec![S::Continue])], None), inc("k0")])],
                4 => vec![
                    // nested loops: EXIT leaves only the inner loop
                    S::While(
                        cond,
                        vec![
                            step,
                            assign("m", lit(int(Ty::DInt, 0))),
                            S::While(lit(V::B(true)), vec![assign("m", bin(Op::Add, var("m"), lit(int(Ty::DInt, 1)))), S::If(vec![(bin(Op::Ge, var("m"), lit(int(Ty::DInt, 2))), vec![S::Exit])], None), inc("k1")]),
                            inc("k0"),
                        ],
                    ),
                ],
                _ => vec![inc("k0"), S::If(vec![(bin(Op::Ge, var("k0"), lim), vec![S::Return])], None), inc("k1"), S::While(cond, vec![step, S::Return]), inc("k2")],
            };
            out.push(case(
                "F4",
                format!("loop:{}", ["while", "repeat", "while-exit", "while-continue", "nested-exit", "return"][shape]),
                prog(vars, body),
                2,
                true,
            ));
        }
    }
    out
}

fn func_add3() -> Func {
    Func {
        name: "Add3".into(),
        ret: Some(Ty::Int),
        inputs: vec![Decl::new("a", Ty::Int), Decl::init("b", int(Ty::Int, 10)), Decl::new("c", Ty::Int)],
        body: vec![assign("Add3", bin(Op::Sub, bin(Op::Add, bin(Op::Mul, var("a"), lit(int(Ty::Int, 100))), bin(Op::Mul, var("b"), lit(int(Ty::Int, 10)))), var("c")))],
        ..Default::default()
    }
}

/// F5: calls — parameter direction × passing style × nesting.
pub fn f5() -> Vec<Case> {
    let mut out = Vec::new();
    let l = |x: i128| lit(int(Ty::Int, x));
    let styles: Vec<(&str, Vec<Arg>)> = vec![
        ("positional", vec![Arg::Pos(l(1)), Arg::Pos(l(2)), Arg::Pos(l(3))]),
        ("named", vec![Arg::In("a".into(), l(1)), Arg::In("b".into(), l(2)), Arg::In("c".into(), l(3))]),
        ("named-reordered", vec![Arg::In("c".into(), l(3)), Arg::In("a".into(), l(1)), Arg::In("b".into(), l(2))]),
        ("named-case-variant", vec![Arg::In("A".into(), l(1)), Arg::In("B".into(), l(2)), Arg::In("C".into(), l(3))]),
        ("named-default-omitted", vec![Arg::In("a".into(), l(1)), Arg::In("c".into(), l(3))]),
        ("named-only-last", vec![Arg::In("c".into(), l(3))]),
    ];
    for (name, args) in &styles {
        let mut p = prog(vec![Decl::new("r", Ty::Int)], vec![assign("r", E::Call("Add3".into(), args.clone()))]);
        p.funcs.push(func_add3());
        out.push(case("F5", format!("call:function:{name}"), p, 2, true));
        let mut p = prog(vec![Decl::new("r", Ty::Int)], vec![assign("r", E::Call("ADD3".into(), args.clone()))]);
        p.funcs.push(func_add3());
        out.push(case("F5", format!("call:function-case-variant:{name}"), p, 1, true));
    }
    // nesting: function in function in expression; argument is a call
    {
        let mut p = prog(
            vec![Decl::new("r", Ty::Int)],
            vec![assign(
                "r",
                E::Call(
                    "Add3".into(),
                    vec![Arg::Pos(E::Call("Add3".into(), vec![Arg::Pos(l(0)), Arg::Pos(l(0)), Arg::Pos(l(-1))])), Arg::Pos(l(0)), Arg::Pos(E::Call("Add3".into(), vec![Arg::Pos(l(0)), Arg::Pos(l(1)), Arg::Pos(l(0))]))],
                ),
            )],
        );
        p.funcs.push(func_add3());
        out.push(case("F5", "call:function:nested-args".into(), p, 1, true));
    }
    // function calling a function
    {
        let twice = Func {
            name: "Twice".into(),
            ret: Some(Ty::Int),
            inputs: vec![Decl::new("x", Ty::Int)],
            locals: vec![Decl::new("t", Ty::Int)],
            body: vec![assign("t", E::Call("Add3".into(), vec![Arg::Pos(l(0)), Arg::Pos(l(0)), Arg::Pos(var("x"))])), assign("Twice", bin(Op::Mul, var("t"), l(-2)))],
            ..Default::default()
        };
        let mut p = prog(vec![Decl::new("r", Ty::Int), Decl::init("v", int(Ty::Int, 7))], vec![assign("r", E::Call("Twice".into(), vec![Arg::Pos(var("v"))])), assign("v", bin(Op::Add, var("v"), l(1)))]);
        p.funcs.push(func_add3());
        p.funcs.push(twice);
        out.push(case("F5", "call:function:function-in-function".into(), p, 3, true));
    }
    // in-out and output parameters; input is by value
    for style in ["positional", "named"] {
        let f = Func {
            name: "Upd".into(),
            ret: Some(Ty::Int),
            inputs: vec![Decl::new("x", Ty::Int)],
            inouts: vec![Decl::new("acc", Ty::Int)],
            outputs: vec![Decl::new("dbl", Ty::Int)],
            body: vec![
                assign("acc", bin(Op::Add, var("acc"), var("x"))),
                assign("x", bin(Op::Add, var("x"), l(1000))),
                assign("dbl", bin(Op::Mul, var("acc"), l(2))),
                assign("Upd", var("x")),
            ],
            ..Default::default()
        };
        let args = if style == "positional" {
            vec![Arg::Pos(var("v")), Arg::Pos(var("total")), Arg::Pos(var("d"))]
        } else {
            vec![Arg::Out("dbl".into(), "d".into()), Arg::In("acc".into(), var("total")), Arg::In("x".into(), var("v"))]
        };
        let mut p = prog(
            vec![Decl::init("v", int(Ty::Int, 5)), Decl::init("total", int(Ty::Int, 1)), Decl::new("d", Ty::Int), Decl::new("r", Ty::Int)],
            vec![assign("r", E::Call("Upd".into(), args))],
        );
        p.funcs.push(f);
        out.push(case("F5", format!("call:function:inout-out:{style}"), p, 3, true));
    }
    // a fault inside a callee (nested) must leave no frame behind
    {
        let f = Func {
            name: "Boom".into(),
            ret: Some(Ty::Int),
            inputs: vec![Decl::new("z", Ty::Int)],
            body: vec![assign("Boom", bin(Op::Div, l(1), var("z")))],
            ..Default::default()
        };
        let g = Func {
            name: "Wrap".into(),
            ret: Some(Ty::Int),
            inputs: vec![Decl::new("z", Ty::Int)],
            body: vec![assign("Wrap", E::Call("Boom".into(), vec![Arg::Pos(var("z"))]))],
            ..Default::default()
        };
        for z in [1i128, 0] {
            let mut p = prog(vec![Decl::new("r", Ty::Int), Decl::init("z", int(Ty::Int, z))], vec![assign("r", E::Call("Wrap".into(), vec![Arg::Pos(var("z"))]))]);
            p.funcs.push(f.clone());
            p.funcs.push(g.clone());
            out.push(case("F5", "call:function:fault-in-nested-callee".into(), p, 2, true));
        }
    }
    // widening at the call boundary: SINT actual into INT formal, INT result into DINT variable
    {
        let mut p = prog(
            vec![Decl::init("s", int(Ty::SInt, -5)), Decl::new("r", Ty::DInt)],
            vec![assign("r", E::Call("Add3".into(), vec![Arg::Pos(var("s")), Arg::Pos(var("s")), Arg::Pos(var("s"))]))],
        );
        p.funcs.push(func_add3());
        out.push(case("F5", "call:function:widening-args-and-result".into(), p, 1, true));
    }
    out
}

/// Terminating and non-terminating recursion (outcome class only; must run crash-isolated).
pub fn f5_recursion() -> Vec<Case> {
    let mut out = Vec::new();
    let l = |x: i128| lit(int(Ty::DInt, x));
    for (name, start) in [("bounded-depth-5", 5i128), ("bounded-depth-200", 200), ("unbounded", -1)] {
        let f = Func {
            name: "Rec".into(),
            ret: Some(Ty::DInt),
            inputs: vec![Decl::new("n", Ty::DInt)],
            body: vec![S::If(
                vec![(bin(Op::Eq, var("n"), l(0)), vec![assign("Rec", l(0))])],
                Some(vec![assign("Rec", bin(Op::Add, E::Call("Rec".into(), vec![Arg::Pos(bin(Op::Sub, var("n"), l(1)))]), l(1)))]),
            )],
            ..Default::default()
        };
        let mut p = prog(vec![Decl::new("r", Ty::DInt)], vec![assign("r", E::Call("Rec".into(), vec![Arg::Pos(l(start))]))]);
        p.funcs.push(f);
        out.push(case("F5r", format!("call:recursion:{name}"), p, 1, false));
    }
    out
}

/// F6: FB instances with internal state.
pub fn f6() -> Vec<Case> {
    let mut out = Vec::new();
    let l = |x: i128| lit(int(Ty::Int, x));
    let fb = FbDef {
        name: "Acc".into(),
        inputs: vec![Decl::new("d", Ty::Int), Decl::new("scale", Ty::Int)],
        outputs: vec![Decl::new("total", Ty::Int)],
        vars: vec![Decl::new("calls", Ty::Int)],
        body: vec![assign("calls", bin(Op::Add, var("calls"), l(1))), assign("total", bin(Op::Add, var("total"), bin(Op::Mul, var("d"), var("scale"))))],
    };
    let inst = |n: &str| Decl { name: n.into(), ty: TyX::Fb("Acc".into()), init: None };
    for calls_a in 0..3usize {
        for calls_b in 0..3usize {
            for style in ["named", "positional", "case-variant"] {
                let mut body = Vec::new();
                let arg = |v: i128| match style {
                    "named" => vec![Arg::In("d".into(), l(v)), Arg::In("scale".into(), l(2))],
                    "positional" => vec![Arg::Pos(l(v)), Arg::Pos(l(2))],
                    _ => vec![Arg::In("D".into(), l(v)), Arg::In("SCALE".into(), l(2))],
                };
                for _ in 0..calls_a {
                    body.push(S::FbCall("fa".into(), arg(3)));
                }
                for _ in 0..calls_b {
                    body.push(S::FbCall("fb".into(), arg(-7)));
                }
                body.push(assign("ra", E::Fld("fa".into(), "total".into())));
                body.push(assign("rb", E::Fld("fb".into(), "total".into())));
                let mut p = prog(vec![inst("fa"), inst("fb"), Decl::new("ra", Ty::Int), Decl::new("rb", Ty::Int)], body);
                p.fbs.push(fb.clone());
                out.push(case("F6", format!("fb:two-instances:{style}"), p, 3, true));
            }
        }
    }
    // output binding, input persistence between calls, call inside a loop
    {
        let body = vec![
            S::FbCall("fa".into(), vec![Arg::In("d".into(), l(2)), Arg::In("scale".into(), l(5)), Arg::Out("total".into(), "ra".into())]),
            // scale keeps its last value (inputs persist in the instance)
            S::FbCall("fa".into(), vec![Arg::In("d".into(), l(1))]),
            S::For { var: "i".into(), from: l(1), to: l(3), by: None, body: vec![S::FbCall("fb".into(), vec![Arg::In("d".into(), var("i"))])] },
            assign("i", l(0)),
            assign("rb", E::Fld("fb".into(), "total".into())),
        ];
        let mut p = prog(vec![inst("fa"), inst("fb"), Decl::new("ra", Ty::Int), Decl::new("rb", Ty::Int), Decl::new("i", Ty::Int)], body);
        p.fbs.push(fb.clone());
        out.push(case("F6i", "fb:omitted-input-keeps-previous-value".into(), p, 3, true));
    }
    // declared initial value of an FB input: visible before the first call and used when omitted
    {
        let fbi = FbDef {
            name: "Ini".into(),
            inputs: vec![Decl::new("d", Ty::Int), Decl::init("gain", int(Ty::Int, 3))],
            outputs: vec![Decl::new("total", Ty::Int)],
            vars: vec![Decl::init("bias", int(Ty::Int, 7))],
            body: vec![assign("total", bin(Op::Add, bin(Op::Mul, var("d"), var("gain")), var("bias")))],
        };
        let insti = |n: &str| Decl { name: n.into(), ty: TyX::Fb("Ini".into()), init: None };
        {
            // bind the input to another value, then omit it: the previous value (not the
            // declared initial value) is used
            let body = vec![
                S::If(vec![(bin(Op::Eq, var("c"), l(1)), vec![S::FbCall("fa".into(), vec![Arg::In("d".into(), l(2)), Arg::In("gain".into(), l(5))])])], Some(vec![S::FbCall("fa".into(), vec![Arg::In("d".into(), l(1))])])),
                assign("ra", E::Fld("fa".into(), "total".into())),
                assign("c", bin(Op::Add, var("c"), l(1))),
            ];
            let mut p = prog(vec![insti("fa"), Decl::new("ra", Ty::Int), Decl::init("c", int(Ty::Int, 0))], body);
            p.fbs.push(fbi.clone());
            out.push(case("F6i", "fb:omitted-input-with-initializer-keeps-previous-value".into(), p, 4, true));
        }
        for called in [false, true] {
            let mut body = Vec::new();
            if called {
                body.push(S::FbCall("fa".into(), vec![Arg::In("d".into(), l(2))]));
            }
            body.push(assign("ra", E::Fld("fa".into(), "gain".into())));
            let mut p = prog(vec![insti("fa"), Decl::new("ra", Ty::Int)], body);
            p.fbs.push(fbi.clone());
            out.push(case("F6i", format!("fb:input-initial-value:{}", if called { "called" } else { "never-called" }), p, 2, true));
        }
    }
    // declared initial values of FB inputs / outputs / variables that are NOT plain literals
    // (negative numbers are a unary minus on a literal, constant expressions): the reference sees
    // the typed value, the program text carries the untyped spelling. Value (C02) and tag (C03).
    {
        let spell: [(Ty, V, &str); 7] = [
            (Ty::Int, int(Ty::Int, -5), "-5"),
            (Ty::SInt, int(Ty::SInt, -128), "-128"),
            (Ty::UInt, int(Ty::UInt, 16), "2 * 8"),
            (Ty::DInt, int(Ty::DInt, -70000), "-70000"),
            (Ty::LInt, int(Ty::LInt, 5_000_000_000), "5000000 * 1000"),
            (Ty::Real, V::R(-1.5), "-1.5"),
            (Ty::LReal, V::L(-2.5), "-2.5"),
        ];
        for section in ["input", "output", "var"] {
            for (t, v, text) in spell {
                let d = Decl::init("k", v);
                let fbk = FbDef {
                    name: "Dflt".into(),
                    inputs: if section == "input" { vec![Decl::new("d", Ty::Int), d.clone()] } else { vec![Decl::new("d", Ty::Int)] },
                    outputs: if section == "output" { vec![d.clone(), Decl::new("seen", t)] } else { vec![Decl::new("seen", t)] },
                    vars: if section == "var" { vec![d.clone()] } else { vec![] },
                    body: vec![assign("seen", var("k"))],
                };
                let instk = Decl { name: "fa".into(), ty: TyX::Fb("Dflt".into()), init: None };
                for called in [false, true] {
                    let mut body = Vec::new();
                    if called {
                        body.push(S::FbCall("fa".into(), vec![Arg::In("d".into(), l(2))]));
                    }
                    body.push(assign("ra", E::Fld("fa".into(), if section == "var" { "seen".into() } else { "k".into() })));
                    let mut p = prog(vec![instk.clone(), Decl::new("ra", t)], body);
                    p.fbs.push(fbk.clone());
                    let typed = super::ast::print(&p);
                    let needle = format!(":= {};", v.typed_lit());
                    if typed.matches(&needle).count() != 1 {
                        continue; // the printer's spelling is not what this family assumes
                    }
                    let mut c = case("F6i", format!("fb:{section}-initial-value-not-a-plain-literal:{}:{}", t.name(), if called { "called" } else { "never-called" }), p, 2, true);
                    c.raw = Some(typed.replace(&needle, &format!(":= {text};")));
                    out.push(c);
                }
            }
        }
    }
    // overflow inside the FB in a later cycle: state at the fault is kept, no frame left
    {
        let body = vec![S::FbCall("fa".into(), vec![Arg::In("d".into(), l(20000)), Arg::In("scale".into(), l(1))])];
        let mut p = prog(vec![inst("fa")], body);
        p.fbs.push(fb);
        out.push(case("F6", "fb:overflow-in-second-cycle".into(), p, 3, true));
    }
    out
}

/// Reference tree for a flat token sequence by IEC Table 71 (precedence climbing; unary binds
/// tighter than every binary operator; binary operators are left-associative).
pub fn table71_tree(toks: &[FlatTok]) -> E {
    fn primary(toks: &[FlatTok], pos: &mut usize) -> E {
        match &toks[*pos] {
            FlatTok::Neg => {
                *pos += 1;
                E::Neg(Box::new(primary(toks, pos)))
            }
            FlatTok::Not => {
                *pos += 1;
                E::Not(Box::new(primary(toks, pos)))
            }
            FlatTok::Operand(e) => {
                *pos += 1;
                e.clone()
            }
            FlatTok::Op(_) => unreachable!("operator in operand position"),
        }
    }
    fn climb(toks: &[FlatTok], pos: &mut usize, min_prec: u8) -> E {
        let mut lhs = primary(toks, pos);
        while *pos < toks.len() {
            let FlatTok::Op(op) = toks[*pos] else { break };
            if op.prec() < min_prec {
                break;
            }
            *pos += 1;
            let rhs = climb(toks, pos, op.prec() + 1);
            lhs = E::Bin(op, Box::new(lhs), Box::new(rhs));
        }
        lhs
    }
    let mut pos = 0;
    climb(toks, &mut pos, 0)
}

/// F7: operator precedence — expressions of three binary operators without parentheses.
pub fn f7() -> Vec<Case> {
    let mut out = Vec::new();
    // integer arithmetic: all triples over {+,-,*,/,MOD} on two value sets (DINT, no overflow)
    let sets: [[i128; 4]; 2] = [[17, 5, 3, 2], [-20, 7, -3, 4]];
    for set in sets {
        for o1 in ARITH {
            for o2 in ARITH {
                for o3 in ARITH {
                    let toks = vec![
                        FlatTok::Operand(var("a")),
                        FlatTok::Op(o1),
                        FlatTok::Operand(var("b")),
                        FlatTok::Op(o2),
                        FlatTok::Operand(var("c")),
                        FlatTok::Op(o3),
                        FlatTok::Operand(var("d")),
                    ];
                    let tree = table71_tree(&toks);
                    let vars = vec![
                        Decl::init("a", int(Ty::DInt, set[0])),
                        Decl::init("b", int(Ty::DInt, set[1])),
                        Decl::init("c", int(Ty::DInt, set[2])),
                        Decl::init("d", int(Ty::DInt, set[3])),
                        Decl::new("r", Ty::DInt),
                    ];
                    out.push(case(
                        "F7",
                        format!("prec:{}-{}-{}", o1.name(), o2.name(), o3.name()),
                        prog(vars, vec![assign("r", E::Flat(toks, Box::new(tree)))]),
                        1,
                        true,
                    ));
                }
            }
        }
    }
    // unary minus against binary operators: - a OP b, a OP - b
    for op in ARITH {
        for (x, y) in [(7i128, 2i128), (-7, 2)] {
            for neg_first in [true, false] {
                let toks = if neg_first {
                    vec![FlatTok::Neg, FlatTok::Operand(var("a")), FlatTok::Op(op), FlatTok::Operand(var("b"))]
                } else {
                    vec![FlatTok::Operand(var("a")), FlatTok::Op(op), FlatTok::Neg, FlatTok::Operand(var("b"))]
                };
                let tree = table71_tree(&toks);
                out.push(case(
                    "F7",
                    format!("prec:neg-{}-{}", if neg_first { "lhs" } else { "rhs" }, op.name()),
                    prog(vec![Decl::init("a", int(Ty::DInt, x)), Decl::init("b", int(Ty::DInt, y)), Decl::new("r", Ty::DInt)], vec![assign("r", E::Flat(toks, Box::new(tree)))]),
                    1,
                    true,
                ));
            }
        }
    }
    // boolean: all triples over {AND, OR, XOR} with optional NOT on each operand position,
    // evaluated on all 16 truth assignments in one program
    for o1 in LOGIC {
        for o2 in LOGIC {
            for o3 in LOGIC {
                for nots in 0..4u8 {
                    let mut vars = Vec::new();
                    let mut body = Vec::new();
                    for m in 0..16u8 {
                        let operand = |i: u8| FlatTok::Operand(lit(V::B(m & (1 << i) != 0)));
                        let mut toks = Vec::new();
                        if nots & 1 != 0 {
                            toks.push(FlatTok::Not);
                        }
                        toks.extend([operand(0), FlatTok::Op(o1), operand(1), FlatTok::Op(o2)]);
                        if nots & 2 != 0 {
                            toks.push(FlatTok::Not);
                        }
                        toks.extend([operand(2), FlatTok::Op(o3), operand(3)]);
                        let tree = table71_tree(&toks);
                        vars.push(Decl::new(&format!("r{m}"), Ty::Bool));
                        body.push(assign(&format!("r{m}"), E::Flat(toks, Box::new(tree))));
                    }
                    out.push(case("F7", format!("prec:{}-{}-{}:not{}", o1.name(), o2.name(), o3.name(), nots), prog(vars, body), 1, true));
                }
            }
        }
    }
    // arithmetic against comparison against logic: a + b < c * d AND e - f >= g OR NOT h
    for set in [[1i128, 2, 3, 4, 9, 5, 4], [5, 5, 2, 5, 1, 1, 1]] {
        for cmp1 in CMP {
            for lg in LOGIC {
                let toks = vec![
                    FlatTok::Operand(var("a")),
                    FlatTok::Op(Op::Add),
                    FlatTok::Operand(var("b")),
                    FlatTok::Op(cmp1),
                    FlatTok::Operand(var("c")),
                    FlatTok::Op(Op::Mul),
                    FlatTok::Operand(var("d")),
                    FlatTok::Op(lg),
                    FlatTok::Operand(var("e")),
                    FlatTok::Op(Op::Sub),
                    FlatTok::Operand(var("f")),
                    FlatTok::Op(Op::Ge),
                    FlatTok::Operand(var("g")),
                    FlatTok::Op(Op::Or),
                    FlatTok::Not,
                    FlatTok::Operand(var("h")),
                ];
                let tree = table71_tree(&toks);
                let mut vars: Vec<Decl> = ["a", "b", "c", "d", "e", "f", "g"].iter().zip(set).map(|(n, v)| Decl::init(n, int(Ty::DInt, v))).collect();
                vars.push(Decl::init("h", V::B(true)));
                vars.push(Decl::new("r", Ty::Bool));
                out.push(case("F7", format!("prec:arith-{}-{}-mixed", cmp1.name(), lg.name()), prog(vars, vec![assign("r", E::Flat(toks, Box::new(tree)))]), 1, true));
            }
        }
    }
    out
}

/// F8: aggregates — array indexing at and beyond the bounds, struct fields.
pub fn f8() -> Vec<Case> {
    let mut out = Vec::new();
    let l = |x: i128| lit(int(Ty::Int, x));
    for (lo, hi) in [(0i64, 3i64), (-2, 1), (5, 5)] {
        for idx in [lo - 1, lo, hi, hi + 1] {
            for write in [false, true] {
                let arr = Decl { name: "arr".into(), ty: TyX::Arr(lo, hi, Ty::Int), init: None };
                let fill = S::For { var: "i".into(), from: l(lo as i128), to: l(hi as i128), by: None, body: vec![S::Assign(LV::Idx("arr".into(), vec![var("i")]), bin(Op::Mul, var("i"), l(10)))] };
                let access = if write {
                    S::Assign(LV::Idx("arr".into(), vec![var("k")]), l(77))
                } else {
                    assign("r", E::Idx("arr".into(), vec![var("k")]))
                };
                let p = prog(
                    vec![arr, Decl::new("i", Ty::Int), Decl::init("k", int(Ty::Int, idx as i128)), Decl::new("r", Ty::Int), Decl::init("after", int(Ty::Int, 0))],
                    vec![fill, assign("i", l(0)), access, assign("after", l(1))],
                );
                let pos = if idx < lo { "below" } else if idx > hi { "above" } else if idx == lo { "first" } else { "last" };
                out.push(case("F8", format!("array1:{}:{}", if write { "write" } else { "read" }, pos), p, 2, true));
            }
        }
    }
    // two dimensions
    for (i0, i1) in [(1i64, -1i64), (1, 0), (2, -1), (2, 0), (0, 0), (3, 0), (1, 1), (1, -2)] {
        for write in [false, true] {
            let arr = Decl { name: "m".into(), ty: TyX::Arr2(1, 2, -1, 0, Ty::DInt), init: None };
            let fill = vec![
                S::Assign(LV::Idx("m".into(), vec![l(1), l(-1)]), lit(int(Ty::DInt, 11))),
                S::Assign(LV::Idx("m".into(), vec![l(1), l(0)]), lit(int(Ty::DInt, 12))),
                S::Assign(LV::Idx("m".into(), vec![l(2), l(-1)]), lit(int(Ty::DInt, 21))),
                S::Assign(LV::Idx("m".into(), vec![l(2), l(0)]), lit(int(Ty::DInt, 22))),
            ];
            let access = if write {
                S::Assign(LV::Idx("m".into(), vec![var("p"), var("q")]), lit(int(Ty::DInt, 99)))
            } else {
                assign("r", E::Idx("m".into(), vec![var("p"), var("q")]))
            };
            let mut body = fill;
            body.push(access);
            let inb = (1..=2).contains(&i0) && (-1..=0).contains(&i1);
            let p = prog(vec![arr, Decl::init("p", int(Ty::Int, i0 as i128)), Decl::init("q", int(Ty::Int, i1 as i128)), Decl::new("r", Ty::DInt)], body);
            out.push(case("F8", format!("array2:{}:{}", if write { "write" } else { "read" }, if inb { "inside" } else { "outside" }), p, 1, true));
        }
    }
    // whole-aggregate assignment is a copy: later writes to one side do not reach the other
    {
        let arr = |n: &str| Decl { name: n.into(), ty: TyX::Arr(0, 2, Ty::Int), init: None };
        let p = prog(
            vec![arr("a"), arr("b"), Decl::new("r", Ty::Int), Decl::new("q", Ty::Int)],
            vec![
                S::Assign(LV::Idx("a".into(), vec![l(0)]), l(10)),
                S::Assign(LV::Idx("a".into(), vec![l(2)]), l(12)),
                assign("b", var("a")),
                S::Assign(LV::Idx("a".into(), vec![l(0)]), l(99)),
                S::Assign(LV::Idx("b".into(), vec![l(2)]), l(77)),
                assign("r", E::Idx("b".into(), vec![l(0)])),
                assign("q", E::Idx("a".into(), vec![l(2)])),
            ],
        );
        out.push(case("F8", "array1:copy-is-by-value".into(), p, 2, true));
        let mut p = prog(
            vec![
                Decl { name: "s".into(), ty: TyX::Struct("Pair".into()), init: None },
                Decl { name: "t".into(), ty: TyX::Struct("Pair".into()), init: None },
                Decl::new("r", Ty::Int),
                Decl::new("q", Ty::Int),
            ],
            vec![
                S::Assign(LV::Fld("s".into(), "g".into()), l(5)),
                assign("t", var("s")),
                S::Assign(LV::Fld("s".into(), "g".into()), l(6)),
                S::Assign(LV::Fld("t".into(), "g".into()), bin(Op::Add, E::Fld("t".into(), "g".into()), l(10))),
                assign("r", E::Fld("t".into(), "g".into())),
                assign("q", E::Fld("s".into(), "g".into())),
            ],
        );
        p.structs.push(StructDef { name: "Pair".into(), fields: vec![("f".into(), Ty::DInt), ("g".into(), Ty::Int)] });
        out.push(case("F8", "struct:copy-is-by-value".into(), p, 2, true));
    }
    // struct fields: write one, read the other, copy
    {
        let mut p = prog(
            vec![
                Decl { name: "s".into(), ty: TyX::Struct("Pair".into()), init: None },
                Decl { name: "t".into(), ty: TyX::Struct("Pair".into()), init: None },
                Decl::new("r", Ty::Int),
                Decl::new("q", Ty::DInt),
            ],
            vec![
                S::Assign(LV::Fld("s".into(), "g".into()), l(5)),
                S::Assign(LV::Fld("s".into(), "f".into()), lit(int(Ty::DInt, 70000))),
                S::Assign(LV::Fld("t".into(), "g".into()), bin(Op::Add, E::Fld("s".into(), "g".into()), l(1))),
                assign("r", E::Fld("t".into(), "g".into())),
                assign("q", E::Fld("s".into(), "f".into())),
            ],
        );
        p.structs.push(StructDef { name: "Pair".into(), fields: vec![("f".into(), Ty::DInt), ("g".into(), Ty::Int)] });
        out.push(case("F8", "struct:field-read-write".into(), p, 2, true));
    }
    out
}

/// F9: hand-written programs around features the AST does not model (outcome class only).
pub fn f9() -> Vec<Case> {
    let mut out = Vec::new();
    for (ty, lit) in [("TIME", "T#1s"), ("DATE", "D#2024-01-02"), ("TOD", "TOD#01:02:03"), ("DT", "DT#2024-01-02-03:04:05"), ("LTIME", "LTIME#1s")] {
        for area in ["I", "Q", "M"] {
            let sz = if ty == "DATE" || ty == "TIME" || ty == "TOD" { "D" } else { "L" };
            let text = format!(
                "PROGRAM Main\nVAR\n    t AT %{area}{sz}0 : {ty};\n    u : {ty} := {lit};\n    k : DINT;\nEND_VAR\n    k := k + 1;\n    {}\nEND_PROGRAM\n",
                if area == "I" { "u := t;" } else { "t := u;" }
            );
            out.push(raw("F9", &format!("at-binding:{ty}:%{area}"), &text, 2));
        }
    }
    // CASE on an enumeration and on bit strings
    out.push(raw(
        "F9",
        "case:selector=ENUM",
        "TYPE Color : (Red, Green, Blue); END_TYPE\nPROGRAM Main\nVAR c : Color := Green; k : DINT; END_VAR\n    CASE c OF\n        Red: k := 1;\n        Green: k := 2;\n    ELSE\n        k := 3;\n    END_CASE;\nEND_PROGRAM\n",
        2,
    ));
    for t in ["BYTE", "WORD", "DWORD", "LWORD"] {
        out.push(raw(
            "F9",
            &format!("case:selector={t}"),
            &format!("PROGRAM Main\nVAR c : {t} := 2; k : DINT; END_VAR\n    CASE c OF\n        1: k := 1;\n        2: k := 2;\n    ELSE\n        k := 3;\n    END_CASE;\nEND_PROGRAM\n"),
            2,
        ));
    }
    // subrange variable written out of range, string into shorter string, enum from integer
    out.push(raw("F9", "subrange:assign-out-of-range", "PROGRAM Main\nVAR s : INT (0..10) := 5; k : INT := 20; END_VAR\n    s := k;\nEND_PROGRAM\n", 2));
    out.push(raw("F9", "string:assign-longer", "PROGRAM Main\nVAR s : STRING[3] := 'ab'; t : STRING[10] := 'abcdefgh'; END_VAR\n    s := t;\nEND_PROGRAM\n", 2));
    out.push(raw("F9", "expr:exponent", "PROGRAM Main\nVAR a : INT := 2; b : INT := 40; r : INT; x : REAL := 2.0; y : REAL; END_VAR\n    y := x ** 3;\n    r := a ** b;\nEND_PROGRAM\n", 2));
    out.push(raw("F9", "ref:null-deref", "PROGRAM Main\nVAR p : REF_TO INT; k : INT; END_VAR\n    k := p^;\nEND_PROGRAM\n", 2));
    out.push(raw("F9", "method:call-on-fb", "FUNCTION_BLOCK F\nVAR v : INT; END_VAR\nMETHOD PUBLIC Bump : INT\nVAR_INPUT d : INT; END_VAR\n    v := v + d;\n    Bump := v;\nEND_METHOD\nEND_FUNCTION_BLOCK\nPROGRAM Main\nVAR f : F; r : INT; END_VAR\n    r := f.Bump(d := 32000);\nEND_PROGRAM\n", 3));
    out
}

/// F10: a value-dependent fault (division by zero in cycle 2) placed at every kind of
/// expression position, including initialisers and argument/target expressions; outcome class
/// and call frames only.
pub fn f10() -> Vec<Case> {
    const PRELUDE: &str = "FUNCTION Fl : DINT\nVAR_INPUT a : DINT; d : DINT; END_VAR\nVAR ratio : DINT := a / d; END_VAR\n    Fl := ratio;\nEND_FUNCTION\n\nFUNCTION Add2 : DINT\nVAR_INPUT a : DINT; b : DINT; END_VAR\n    Add2 := a + b;\nEND_FUNCTION\n\nFUNCTION Io : DINT\nVAR_IN_OUT x : DINT; END_VAR\nVAR_OUTPUT o : DINT; END_VAR\n    x := x + 1;\n    o := x;\n    Io := x;\nEND_FUNCTION\n\nFUNCTION_BLOCK Fbt\nVAR_INPUT d : DINT; END_VAR\nVAR_OUTPUT q : DINT; END_VAR\nVAR_TEMP t : DINT; END_VAR\nMETHOD PUBLIC M : DINT\nVAR_INPUT md : DINT; END_VAR\nVAR ml : DINT := 10 / md; END_VAR\n    M := ml;\nEND_METHOD\n    t := 10 / d;\n    q := t;\nEND_FUNCTION_BLOCK\n\n";
    let sites: &[(&str, &str)] = &[
        ("function-local-initializer", "r := Fl(10, z);"),
        ("method-local-initializer", "r := fb.M(md := z);"),
        ("fb-body", "fb(d := z);"),
        ("fb-argument", "fb(d := 10 / z);"),
        ("function-second-argument", "r := Add2(Fl(1, 1), 10 / z);"),
        ("function-first-argument", "r := Add2(10 / z, Fl(1, 1));"),
        ("nested-call-argument", "r := Add2(Add2(1, 10 / z), 2);"),
        ("assignment-target-index", "arr[5 / z] := 1;"),
        ("rvalue-index", "r := arr[5 / z];"),
        ("for-end-bound", "FOR i := 1 TO 10 / z DO r := r + 1; END_FOR;"),
        ("for-start-bound", "FOR i := 10 / z TO 12 DO r := r + 1; END_FOR;"),
        ("for-step", "FOR i := 1 TO 3 BY 1 / z DO r := r + 1; END_FOR;"),
        ("case-selector", "CASE 10 / z OF 10: r := 1; ELSE r := 2; END_CASE;"),
        ("if-condition", "IF 10 / z = 10 THEN r := 1; END_IF;"),
        ("elsif-condition", "IF r = 77 THEN r := 1; ELSIF 10 / z = 10 THEN r := 2; END_IF;"),
        ("while-condition", "WHILE r < 10 / z DO r := r + 5; END_WHILE;"),
        ("repeat-condition", "REPEAT r := r + 1; UNTIL 10 / z >= 1 END_REPEAT;"),
        ("inout-function-after-write", "r := Io(x := v, o => w) + 10 / z;"),
        ("output-target-index", "r := Io(x := v, o => arr[5 / z]);"),
        ("in-loop-in-function-call", "FOR i := 1 TO 2 DO r := Add2(r, Fl(i, z)); END_FOR;"),
    ];
    let mut out = Vec::new();
    for (name, stmt) in sites {
        let text = format!(
            "{PRELUDE}PROGRAM Main\nVAR\n    z : DINT := 1; r : DINT; i : DINT; v : DINT; w : DINT;\n    arr : ARRAY[0..5] OF DINT;\n    fb : Fbt;\nEND_VAR\n    {stmt}\n    z := 0;\nEND_PROGRAM\n"
        );
        out.push(raw("F10", &format!("fault-at:{name}"), &text, 3));
    }
    out
}

/// The whole corpus except the recursion family, simplest first.

/// All sequences of length `len` over `menu`, in odometer order (first position slowest).
fn sequences<T: Clone>(menu: &[T], len: usize) -> Vec<Vec<T>> {
    let mut out: Vec<Vec<T>> = vec![Vec::new()];
    for _ in 0..len {
        let mut next = Vec::new();
        for pre in &out {
            for m in menu {
                let mut v = pre.clone();
                v.push(m.clone());
                next.push(v);
            }
        }
        out = next;
    }
    out
}

/// F11: input traces. Program variables located at direct input addresses receive a new value
/// before every cycle (written into the input image the way a driver does); the programs keep state
/// across cycles (accumulator, edge memory, FB instance, array) so the final state depends on the
/// whole trace, and several values of the menu make a cycle fault (overflow of the accumulated
/// sum, division by an input of zero, index from an input). Every trace of the stated length over
/// the value menu is enumerated.
pub fn f11(thorough: bool) -> Vec<Case> {
    let mut out = Vec::new();
    let len = if thorough { 5 } else { 3 };
    let li = |x: i128| lit(int(Ty::Int, x));
    let int_menu: Vec<V> = [0i128, 1, -1, 2, 32767, -32768].iter().map(|&x| int(Ty::Int, x)).collect();
    let small_menu: Vec<V> = [0i128, 1, -1, 2, 3].iter().map(|&x| int(Ty::Int, x)).collect();
    let mut one_input = |name: &str, ty: Ty, addr: &str, menu: &[V], vars: Vec<Decl>, body: Vec<S>, extra: &dyn Fn(&mut Prog)| {
        for tr in sequences(menu, len) {
            let mut v = vec![Decl::new("x", ty)];
            v.extend(vars.clone());
            let mut p = prog(v, body.clone());
            p.at = vec![("x".into(), addr.into())];
            p.inputs = tr.iter().map(|val| vec![("x".to_string(), *val)]).collect();
            extra(&mut p);
            out.push(case("F11", format!("input-trace:{name}"), p, len, true));
        }
    };
    let none = |_: &mut Prog| {};
    // accumulate: overflow depends on the trace
    one_input("accumulate:INT", Ty::Int, "%IW0", &int_menu, vec![Decl::new("acc", Ty::Int), Decl::new("n", Ty::Int)], vec![
        assign("n", bin(Op::Add, var("n"), li(1))),
        assign("acc", bin(Op::Add, var("acc"), var("x"))),
    ], &none);
    // divide / modulo by the input; the statements before the fault stay visible
    one_input("divide:INT", Ty::Int, "%IW2", &int_menu, vec![Decl::new("q", Ty::Int), Decl::new("m", Ty::Int), Decl::new("n", Ty::Int)], vec![
        assign("n", bin(Op::Add, var("n"), li(1))),
        assign("q", bin(Op::Div, li(-32768), var("x"))),
        assign("m", bin(Op::Mod, bin(Op::Add, var("q"), var("n")), var("x"))),
    ], &none);
    // index from the input (array 0..2), read-modify-write
    one_input("index:INT", Ty::Int, "%IW4", &small_menu, vec![Decl { name: "a".into(), ty: TyX::Arr(0, 2, Ty::Int), init: None }, Decl::new("n", Ty::Int)], vec![
        assign("n", bin(Op::Add, var("n"), li(1))),
        S::Assign(LV::Idx("a".into(), vec![var("x")]), bin(Op::Add, E::Idx("a".into(), vec![var("x")]), var("n"))),
    ], &none);
    // CASE on the input with state
    one_input("case:INT", Ty::Int, "%IW6", &small_menu, vec![Decl::new("s", Ty::Int), Decl::new("e", Ty::Int)], vec![S::Case(
        var("x"),
        vec![
            (vec![Label::One(0)], vec![assign("s", bin(Op::Add, var("s"), li(1)))]),
            (vec![Label::Range(1, 2)], vec![assign("s", bin(Op::Mul, var("s"), li(2)))]),
        ],
        Some(vec![assign("e", bin(Op::Add, var("e"), var("x")))]),
    )], &none);
    // FOR bounded by the input (empty ranges for negative inputs), WHILE countdown
    one_input("for-bound:INT", Ty::Int, "%IW8", &small_menu, vec![Decl::new("i", Ty::Int), Decl::new("s", Ty::Int), Decl::new("k", Ty::Int)], vec![
        S::For { var: "i".into(), from: li(0), to: var("x"), by: None, body: vec![assign("s", bin(Op::Add, var("s"), var("i")))] },
        assign("k", var("x")),
        S::While(bin(Op::Gt, var("k"), li(0)), vec![assign("k", bin(Op::Sub, var("k"), li(1))), assign("s", bin(Op::Add, var("s"), li(10)))]),
    ], &none);
    // comparison with the previous input (direction counters)
    one_input("direction:INT", Ty::Int, "%IW10", &int_menu, vec![Decl::new("prev", Ty::Int), Decl::new("up", Ty::Int), Decl::new("dn", Ty::Int)], vec![
        S::If(
            vec![
                (bin(Op::Gt, var("x"), var("prev")), vec![assign("up", bin(Op::Add, var("up"), li(1)))]),
                (bin(Op::Lt, var("x"), var("prev")), vec![assign("dn", bin(Op::Add, var("dn"), li(1)))]),
            ],
            None,
        ),
        assign("prev", var("x")),
    ], &none);
    // FB instance with state fed from the input; a second instance fed with the negated input
    {
        let fb = FbDef {
            name: "Sum".into(),
            inputs: vec![Decl::new("d", Ty::Int)],
            outputs: vec![Decl::new("total", Ty::Int)],
            vars: vec![],
            body: vec![assign("total", bin(Op::Add, var("total"), var("d")))],
        };
        let inst = |n: &str| Decl { name: n.into(), ty: TyX::Fb("Sum".into()), init: None };
        one_input("fb-state:INT", Ty::Int, "%IW12", &int_menu, vec![inst("fa"), inst("fb"), Decl::new("ra", Ty::Int), Decl::new("rb", Ty::Int)], vec![
            S::FbCall("fa".into(), vec![Arg::In("d".into(), var("x"))]),
            assign("ra", E::Fld("fa".into(), "total".into())),
            S::FbCall("fb".into(), vec![Arg::In("d".into(), E::Neg(Box::new(var("x"))))]),
            assign("rb", E::Fld("fb".into(), "total".into())),
        ], &|p: &mut Prog| p.fbs.push(fb.clone()));
    }
    // widening of the input into a wider accumulator, and a function by value
    {
        let f = Func {
            name: "Clamp".into(),
            ret: Some(Ty::Int),
            inputs: vec![Decl::new("v", Ty::Int), Decl::new("hi", Ty::Int)],
            body: vec![S::If(vec![(bin(Op::Gt, var("v"), var("hi")), vec![assign("Clamp", var("hi"))])], Some(vec![assign("Clamp", var("v"))]))],
            ..Default::default()
        };
        one_input("widen-and-call:INT", Ty::Int, "%IW14", &int_menu, vec![Decl::new("w", Ty::DInt), Decl::new("c", Ty::Int)], vec![
            assign("w", bin(Op::Add, var("w"), var("x"))),
            assign("c", bin(Op::Add, var("c"), E::Call("Clamp".into(), vec![Arg::Pos(var("x")), Arg::Pos(li(100))]))),
        ], &|p: &mut Prog| p.funcs.push(f.clone()));
    }
    // other integer widths: the latch must deliver the exact value for every cell size
    for (ty, addr) in [(Ty::SInt, "%IB20"), (Ty::USInt, "%IB21"), (Ty::UInt, "%IW22"), (Ty::DInt, "%ID24"), (Ty::UDInt, "%ID28"), (Ty::LInt, "%IL32"), (Ty::ULInt, "%IL40")] {
        let mut menu: Vec<V> = vec![int(ty, 0), int(ty, 1), int(ty, ty.max()), int(ty, ty.max() - 1)];
        if ty.is_signed() {
            menu.push(int(ty, -1));
            menu.push(int(ty, ty.min()));
        }
        let l1 = lit(int(ty, 1));
        one_input(&format!("accumulate:{}", ty.name()), ty, addr, &menu, vec![Decl::new("acc", ty), Decl::new("last", ty)], vec![
            assign("last", var("x")),
            assign("acc", bin(Op::Add, var("acc"), bin(Op::Div, var("x"), bin(Op::Add, l1.clone(), l1)))),
        ], &none);
    }
    // REAL / LREAL inputs: accumulate and compare (exact IEEE results are part of the reference)
    for (ty, addr, menu) in [
        (Ty::Real, "%ID56", vec![V::R(0.0), V::R(1.5), V::R(-2.25), V::R(3.0e38), V::R(1.0e-38)]),
        (Ty::LReal, "%IL64", vec![V::L(0.0), V::L(1.5), V::L(-2.25), V::L(1.0e308), V::L(1.0e-308)]),
    ] {
        let rlen = if thorough { 4 } else { 3 };
        for tr in sequences(&menu, rlen) {
            let mut p = prog(
                vec![Decl::new("x", ty), Decl::new("acc", ty), Decl::new("big", Ty::Int)],
                vec![
                    assign("acc", bin(Op::Add, var("acc"), var("x"))),
                    S::If(vec![(bin(Op::Gt, var("x"), var("acc")), vec![assign("big", bin(Op::Add, var("big"), li(1)))])], None),
                ],
            );
            p.at = vec![("x".into(), addr.into())];
            p.inputs = tr.iter().map(|v| vec![("x".to_string(), *v)]).collect();
            out.push(case("F11", format!("input-trace:accumulate:{}", ty.name()), p, rlen, true));
        }
    }
    // BOOL input: rising-edge counter (every trace)
    {
        let menu = [V::B(false), V::B(true)];
        let blen = if thorough { 10 } else { 5 };
        for tr in sequences(&menu, blen) {
            let mut p = prog(
                vec![Decl::new("x", Ty::Bool), Decl::new("prev", Ty::Bool), Decl::new("cnt", Ty::Int), Decl::new("high", Ty::Int)],
                vec![
                    S::If(vec![(bin(Op::And, var("x"), E::Not(Box::new(var("prev")))), vec![assign("cnt", bin(Op::Add, var("cnt"), li(1)))])], None),
                    S::If(vec![(var("x"), vec![assign("high", bin(Op::Add, var("high"), li(1)))])], None),
                    assign("prev", var("x")),
                ],
            );
            p.at = vec![("x".into(), "%IX48.3".into())];
            p.inputs = tr.iter().map(|v| vec![("x".to_string(), *v)]).collect();
            out.push(case("F11", "input-trace:rising-edge:BOOL".into(), p, blen, true));
        }
    }
    // two inputs that interact: q := a / b with both from the image
    {
        let ma: Vec<V> = [0i128, 7, -32768].iter().map(|&x| int(Ty::Int, x)).collect();
        let mb: Vec<V> = [0i128, -1, 2].iter().map(|&x| int(Ty::Int, x)).collect();
        let pairs: Vec<(V, V)> = ma.iter().flat_map(|a| mb.iter().map(move |b| (*a, *b))).collect();
        let plen = if thorough { 4 } else { 2 };
        for tr in sequences(&pairs, plen) {
            let mut p = prog(
                vec![Decl::new("a", Ty::Int), Decl::new("b", Ty::Int), Decl::new("q", Ty::Int), Decl::new("n", Ty::Int)],
                vec![assign("n", bin(Op::Add, var("n"), li(1))), assign("q", bin(Op::Add, var("q"), bin(Op::Div, var("a"), var("b"))))],
            );
            p.at = vec![("a".into(), "%IW50".into()), ("b".into(), "%IW52".into())];
            p.inputs = tr.iter().map(|(a, b)| vec![("a".to_string(), *a), ("b".to_string(), *b)]).collect();
            out.push(case("F11", "input-trace:two-inputs:divide".into(), p, plen, true));
        }
    }
    out
}

/// F12: two-operator expression trees over one integer type, both association shapes written
/// with parentheses, every operator pair, every operand triple of the boundary menu:
/// `r := (a OP1 b) OP2 c` and `r := a OP1 (b OP2 c)`. The intermediate result is computed in the
/// operand type, so a fault in the inner operation (overflow, division by zero) must surface even
/// when the outer operation would bring the value back into range.
pub fn f12(thorough: bool) -> Vec<Case> {
    let mut out = Vec::new();
    let types: Vec<Ty> = if thorough { INTS.to_vec() } else { vec![Ty::Int, Ty::USInt] };
    for &t in &types {
        let vals = small_bounds(t);
        for &op1 in &ARITH {
            for &op2 in &ARITH {
                for shape in ["left", "right"] {
                    for &a in &vals {
                        for &b in &vals {
                            for &c in &vals {
                                let e = if shape == "left" {
                                    bin(op2, E::Paren(Box::new(bin(op1, var("a"), var("b")))), var("c"))
                                } else {
                                    bin(op1, var("a"), E::Paren(Box::new(bin(op2, var("b"), var("c")))))
                                };
                                let p = prog(
                                    vec![Decl::init("a", int(t, a)), Decl::init("b", int(t, b)), Decl::init("c", int(t, c)), Decl::new("r", t), Decl::new("done", Ty::Bool)],
                                    vec![assign("r", e), assign("done", lit(V::B(true)))],
                                );
                                out.push(case("F12", format!("tree:{}:{}:{}:{shape}", t.name(), op1.name(), op2.name()), p, 1, true));
                            }
                        }
                    }
                }
            }
        }
    }
    out
}

/// F14: programs that cannot terminate, run under a 60 ms execution budget: every cycle must end
/// with the budget-timeout fault (and no frame left) instead of hanging. Loop kind × body shape
/// (empty, statement, nested empty loop, call) × place (program, function, FB, method).
pub fn f14() -> Vec<Case> {
    let mut out = Vec::new();
    let loops: [(&str, &str, &str); 5] = [
        // a backward JMP is a loop that passes through no loop statement
        ("jmp-back", "again:", "JMP again;"),
        ("while", "WHILE NOT stop DO", "END_WHILE;"),
        ("while-true", "WHILE TRUE DO", "END_WHILE;"),
        ("repeat", "REPEAT", "UNTIL stop END_REPEAT;"),
        ("for-huge-nested", "FOR i := -2147483647 TO 2147483647 DO FOR j := -2147483647 TO 2147483647 DO", "END_FOR; END_FOR;"),
    ];
    let bodies: [(&str, &str); 4] = [("empty", ""), ("statement", "n := n + 0;"), ("nested-empty-loop", "WHILE FALSE DO END_WHILE;"), ("call", "n := Id(n);")];
    let decls = "stop : BOOL; i : DINT; j : DINT; n : DINT; stp : DINT := 1;";
    let idf = "FUNCTION Id : DINT\nVAR_INPUT v : DINT; END_VAR\n    Id := v;\nEND_FUNCTION\n";
    for (lname, open, close) in loops {
        for (bname, body) in bodies {
            let lp = format!("{open} {body} {close}");
            for place in ["program", "function", "fb", "method"] {
                let text = match place {
                    "program" => format!("{idf}PROGRAM Main\nVAR {decls} END_VAR\n    {lp}\nEND_PROGRAM\n"),
                    "function" => format!("{idf}FUNCTION Spin : DINT\nVAR_INPUT stop : BOOL; END_VAR\nVAR i : DINT; j : DINT; n : DINT; stp : DINT := 1; END_VAR\n    {lp}\n    Spin := n;\nEND_FUNCTION\nPROGRAM Main\nVAR r : DINT; END_VAR\n    r := Spin(FALSE);\nEND_PROGRAM\n"),
                    "fb" => format!("{idf}FUNCTION_BLOCK Spin\nVAR {decls} END_VAR\n    {lp}\nEND_FUNCTION_BLOCK\nPROGRAM Main\nVAR f : Spin; END_VAR\n    f();\nEND_PROGRAM\n"),
                    _ => format!("{idf}FUNCTION_BLOCK Holder\nVAR {decls} END_VAR\nMETHOD PUBLIC Spin : DINT\n    {lp}\n    Spin := n;\nEND_METHOD\nEND_FUNCTION_BLOCK\nPROGRAM Main\nVAR h : Holder; r : DINT; END_VAR\n    r := h.Spin();\nEND_PROGRAM\n"),
                };
                let mut c = raw("F14", &format!("endless:{lname}:{bname}:{place}"), &text, 1);
                c.prog.budget_ms = Some(60);
                out.push(c);
            }
        }
    }
    out
}

/// F15: evaluation order and operand purity. Logic operators whose one operand is a BOOL
/// *literal* or a variable and whose other operand is impure (faults for the current values, or
/// calls a function with an in-out side effect), in both positions: the left operand is always
/// evaluated first; only the right operand of AND/OR may be skipped, and only when the left one
/// decides. Arithmetic/comparison identities with a literal neutral element (`x * 0`, `x - x`,
/// `0 * f()`) must still evaluate the impure operand.
pub fn f15() -> Vec<Case> {
    let mut out = Vec::new();
    let l = |x: i128| lit(int(Ty::Int, x));
    let bump = Func {
        name: "Bump".into(),
        ret: Some(Ty::Bool),
        inputs: vec![Decl::new("res", Ty::Bool)],
        inouts: vec![Decl::new("c", Ty::Int)],
        body: vec![assign("c", bin(Op::Add, var("c"), l(1))), assign("Bump", var("res"))],
        ..Default::default()
    };
    let bumpi = Func {
        name: "BumpI".into(),
        ret: Some(Ty::Int),
        inputs: vec![Decl::new("res", Ty::Int)],
        inouts: vec![Decl::new("c", Ty::Int)],
        body: vec![assign("c", bin(Op::Add, var("c"), l(1))), assign("BumpI", var("res"))],
        ..Default::default()
    };
    let vars = || {
        vec![
            Decl::init("z", int(Ty::Int, 0)),
            Decl::new("cnt", Ty::Int),
            Decl::init("bt", V::B(true)),
            Decl::init("bf", V::B(false)),
            Decl::new("r", Ty::Bool),
            Decl::new("after", Ty::Int),
        ]
    };
    let pures: Vec<(&str, E)> = vec![("lit-true", lit(V::B(true))), ("lit-false", lit(V::B(false))), ("var-true", var("bt")), ("var-false", var("bf"))];
    for op in LOGIC {
        for (pname, pure) in &pures {
            for res in [false, true] {
                let impures: Vec<(&str, E)> = vec![
                    ("faulting", bin(Op::Gt, bin(Op::Div, l(100), var("z")), l(0))),
                    ("side-effect", E::Call("Bump".into(), vec![Arg::Pos(lit(V::B(res))), Arg::Pos(var("cnt"))])),
                ];
                for (iname, imp) in impures {
                    if iname == "faulting" && res {
                        continue; // the faulting operand has no result value to vary
                    }
                    for pos in ["impure-left", "impure-right"] {
                        let e = if pos == "impure-left" { bin(op, imp.clone(), pure.clone()) } else { bin(op, pure.clone(), imp.clone()) };
                        let mut p = prog(vars(), vec![assign("r", e), assign("after", bin(Op::Add, var("after"), l(1)))]);
                        p.funcs.push(bump.clone());
                        out.push(case("F15", format!("order:{}:{pos}:{iname}:{pname}", op.name()), p, 2, true));
                    }
                }
            }
        }
    }
    // arithmetic / comparison identities with an impure operand
    let vars_i = || vec![Decl::init("z", int(Ty::Int, 0)), Decl::new("cnt", Ty::Int), Decl::new("ri", Ty::Int), Decl::new("rb", Ty::Bool), Decl::new("after", Ty::Int)];
    let call = || E::Call("BumpI".into(), vec![Arg::Pos(l(7)), Arg::Pos(var("cnt"))]);
    let div = || bin(Op::Div, l(100), var("z"));
    let shapes: Vec<(&str, S)> = vec![
        ("mul-zero-right:side-effect", assign("ri", bin(Op::Mul, call(), l(0)))),
        ("mul-zero-left:side-effect", assign("ri", bin(Op::Mul, l(0), call()))),
        ("mul-zero-right:faulting", assign("ri", bin(Op::Mul, div(), l(0)))),
        ("mul-zero-left:faulting", assign("ri", bin(Op::Mul, l(0), div()))),
        ("add-zero:side-effect", assign("ri", bin(Op::Add, l(0), call()))),
        ("sub-self:side-effect", assign("ri", bin(Op::Sub, call(), call()))),
        ("mod-one:faulting", assign("ri", bin(Op::Mod, div(), l(1)))),
        ("eq-self:side-effect", assign("rb", bin(Op::Eq, call(), call()))),
        ("eq-self:faulting", assign("rb", bin(Op::Eq, div(), div()))),
    ];
    for (name, st) in shapes {
        let mut p = prog(vars_i(), vec![st, assign("after", bin(Op::Add, var("after"), l(1)))]);
        p.funcs.push(bumpi.clone());
        out.push(case("F15", format!("order:identity:{name}"), p, 2, true));
    }
    // conditions with a literal: IF/WHILE/CASE still evaluate an impure part
    {
        let mut p = prog(
            vars(),
            vec![
                S::If(vec![(bin(Op::And, E::Call("Bump".into(), vec![Arg::Pos(lit(V::B(true))), Arg::Pos(var("cnt"))]), lit(V::B(false))), vec![assign("after", l(100))])], Some(vec![assign("after", bin(Op::Add, var("after"), l(1)))])),
            ],
        );
        p.funcs.push(bump.clone());
        out.push(case("F15", "order:if-condition:impure-left:side-effect:lit-false".into(), p, 2, true));
    }
    out
}

/// F5o: FUNCTION outputs that the call leaves unconnected. The output is a local of the call: it
/// starts at its default in every call (functions are stateless), and a caller variable with the
/// same name is neither read nor written.
pub fn f5o() -> Vec<Case> {
    let mut out = Vec::new();
    let l = |x: i128| lit(int(Ty::Int, x));
    let divmod = Func {
        name: "DivMod".into(),
        ret: Some(Ty::Int),
        inputs: vec![Decl::new("a", Ty::Int), Decl::new("b", Ty::Int)],
        outputs: vec![Decl::new("rest", Ty::Int)],
        body: vec![assign("rest", bin(Op::Mod, var("a"), var("b"))), assign("DivMod", bin(Op::Div, var("a"), var("b")))],
        ..Default::default()
    };
    // reads its output before assigning it
    let acc = Func {
        name: "Acc".into(),
        ret: Some(Ty::Int),
        inputs: vec![Decl::new("a", Ty::Int)],
        outputs: vec![Decl::new("seen", Ty::Int)],
        body: vec![assign("Acc", bin(Op::Add, var("seen"), var("a"))), assign("seen", bin(Op::Add, var("seen"), var("a")))],
        ..Default::default()
    };
    for holder in ["caller-variable", "none"] {
        for conn in ["unconnected", "connected", "positional-short"] {
            let args = match conn {
                "unconnected" => vec![Arg::In("a".into(), l(17)), Arg::In("b".into(), l(5))],
                "connected" => vec![Arg::In("a".into(), l(17)), Arg::In("b".into(), l(5)), Arg::Out("rest".into(), "got".into())],
                _ => vec![Arg::Pos(l(17)), Arg::Pos(l(5))],
            };
            let mut vars = vec![Decl::new("q", Ty::Int), Decl::new("got", Ty::Int), Decl::new("copy", Ty::Int)];
            let mut p;
            if holder == "caller-variable" {
                vars.push(Decl::init("rest", int(Ty::Int, 7)));
                p = prog(vars, vec![assign("q", E::Call("DivMod".into(), args)), assign("copy", var("rest"))]);
            } else {
                p = prog(vars, vec![assign("q", E::Call("DivMod".into(), args))]);
            }
            p.funcs.push(divmod.clone());
            out.push(case("F5o", format!("function-output:{conn}:same-name-{holder}"), p, 2, true));
        }
    }
    for conn in ["unconnected", "connected"] {
        let a1 = if conn == "unconnected" { vec![Arg::In("a".into(), l(5))] } else { vec![Arg::In("a".into(), l(5)), Arg::Out("seen".into(), "got".into())] };
        let mut p = prog(
            vec![Decl::new("r1", Ty::Int), Decl::new("r2", Ty::Int), Decl::new("got", Ty::Int)],
            vec![assign("r1", E::Call("Acc".into(), a1.clone())), assign("r2", E::Call("Acc".into(), a1))],
        );
        p.funcs.push(acc.clone());
        out.push(case("F5o", format!("function-output:{conn}:read-before-write-twice"), p, 2, true));
    }
    // declared initial values of FUNCTION outputs: visible through `=>` until the body assigns them
    {
        let f = Func {
            name: "Fo".into(),
            ret: Some(Ty::Int),
            inputs: vec![Decl::new("a", Ty::Int)],
            outputs: vec![Decl::init("o", int(Ty::Int, 7)), Decl::init("p", int(Ty::Int, -3))],
            body: vec![assign("Fo", var("a")), S::If(vec![(bin(Op::Gt, var("a"), l(1)), vec![assign("o", var("a"))])], None)],
            ..Default::default()
        };
        let mut p = prog(
            vec![Decl::new("r", Ty::Int), Decl::new("oo", Ty::Int), Decl::new("pp", Ty::Int), Decl::new("c", Ty::Int)],
            vec![assign("c", bin(Op::Add, var("c"), l(1))), assign("r", E::Call("Fo".into(), vec![Arg::In("a".into(), var("c")), Arg::Out("o".into(), "oo".into()), Arg::Out("p".into(), "pp".into())]))],
        );
        p.funcs.push(f);
        out.push(case("F5o", "function-output:declared-initial-value".into(), p, 3, true));
    }
    // the same inside a function whose own local has the output's name
    {
        let outer = Func {
            name: "Outer".into(),
            ret: Some(Ty::Int),
            inputs: vec![Decl::new("x", Ty::Int)],
            locals: vec![Decl::init("rest", int(Ty::Int, 3))],
            body: vec![assign("Outer", E::Call("DivMod".into(), vec![Arg::In("a".into(), var("x")), Arg::In("b".into(), l(5))])), assign("Outer", bin(Op::Add, bin(Op::Mul, var("Outer"), l(100)), var("rest")))],
            ..Default::default()
        };
        let mut p = prog(vec![Decl::new("r", Ty::Int)], vec![assign("r", E::Call("Outer".into(), vec![Arg::Pos(l(17))]))]);
        p.funcs.push(divmod.clone());
        p.funcs.push(outer);
        out.push(case("F5o", "function-output:unconnected:same-name-callee-local".into(), p, 2, true));
    }
    out
}

/// F6p: parameter passing keeps the declared type of the parameter. FB inputs (visible in the
/// instance after the call) of every numeric / bit-string type receive an argument VARIABLE and
/// an argument EXPRESSION of every narrower type the checker accepts by implicit widening, by
/// name and by position; a function returns its input so that the value is compared as well.
pub fn f6p() -> Vec<Case> {
    let mut out = Vec::new();
    let pairs: Vec<(Ty, Ty)> = {
        let mut v = Vec::new();
        for &t in &INTS {
            for &s in &INTS {
                if same_chain(t, s) && s.bits() < t.bits() {
                    v.push((t, s));
                }
            }
            // unsigned into a wider signed type
            for &s in &UNSIGNED {
                if t.is_signed() && s.bits() < t.bits() {
                    v.push((t, s));
                }
            }
        }
        for &s in &INTS {
            if s.bits() <= 16 {
                v.push((Ty::Real, s));
            }
            if s.bits() <= 32 {
                v.push((Ty::LReal, s));
            }
        }
        v.push((Ty::LReal, Ty::Real));
        for (t, s) in [(Ty::Word, Ty::Byte), (Ty::DWord, Ty::Byte), (Ty::DWord, Ty::Word), (Ty::LWord, Ty::Byte), (Ty::LWord, Ty::Word), (Ty::LWord, Ty::DWord)] {
            v.push((t, s));
        }
        v
    };
    let sample = |t: Ty| -> V {
        match t {
            Ty::Real => V::R(1.5),
            Ty::LReal => V::L(1.5),
            Ty::Byte | Ty::Word | Ty::DWord | Ty::LWord => V::Bits(t, 5),
            _ => int(t, 5),
        }
    };
    for (t, s) in pairs {
        let fb = FbDef {
            name: "Take".into(),
            inputs: vec![Decl::new("inp", t)],
            outputs: vec![Decl::new("seen", t)],
            vars: vec![],
            body: vec![assign("seen", var("inp"))],
        };
        let f = Func {
            name: "Echo".into(),
            ret: Some(t),
            inputs: vec![Decl::new("v", t)],
            body: vec![assign("Echo", var("v"))],
            ..Default::default()
        };
        for style in ["named", "positional"] {
            // a positional call names every parameter: the input and the output
            let arg = |e: E| if style == "named" { vec![Arg::In("inp".into(), e)] } else { vec![Arg::Pos(e), Arg::Pos(var("r"))] };
            let mut p = prog(
                vec![Decl { name: "fb".into(), ty: TyX::Fb("Take".into()), init: None }, Decl::init("a", sample(s)), Decl::new("r", t), Decl::new("e", t)],
                vec![S::FbCall("fb".into(), arg(var("a"))), assign("r", E::Fld("fb".into(), "seen".into())), assign("e", E::Call("Echo".into(), vec![Arg::Pos(var("a"))]))],
            );
            p.fbs.push(fb.clone());
            p.funcs.push(f.clone());
            out.push(case("F6p", format!("parameter-passing:fb-input:variable:{style}:{}<-{}", t.name(), s.name()), p, 2, true));
        }
    }
    out
}

/// F3r: the `r := r * 2.0` idiom on REAL variables (an untyped real literal in arithmetic with a
/// REAL operand), every arithmetic operator; the result must stay a REAL.
pub fn f3r() -> Vec<Case> {
    let mut out = Vec::new();
    for op in [Op::Add, Op::Sub, Op::Mul, Op::Div] {
        for side in ["literal-right", "literal-left"] {
            let e = if side == "literal-right" { bin(op, var("r"), ulit(V::L(2.0))) } else { bin(op, ulit(V::L(2.0)), var("r")) };
            let p = prog(vec![Decl::init("r", V::R(1.5)), Decl::new("k", Ty::Int)], vec![assign("r", e), assign("k", bin(Op::Add, var("k"), lit(int(Ty::Int, 1))))]);
            out.push(case("F3r", format!("real-arith-untyped-literal:{}:{side}", op.name()), p, 2, true));
        }
    }
    out
}

/// F17: chains of named types. A variable whose type is an alias of an alias, an alias of a named
/// subrange, a subrange over an alias (and longer chains) holds the ELEMENTARY type at the end of
/// the chain: with and without a declared initial value (untyped literal), as program variable, FB
/// variable and FB input, after typed arithmetic and a copy. Outcome class and tags (C01, C03).
pub fn f17() -> Vec<Case> {
    let mut out = Vec::new();
    for base in [Ty::SInt, Ty::Int, Ty::DInt, Ty::LInt, Ty::USInt, Ty::UInt, Ty::UDInt] {
        let b = base.name();
        let shapes: Vec<(&str, String, &str)> = vec![
            ("alias", format!("A1 : {b};"), "A1"),
            ("alias-of-alias", format!("A1 : {b}; A2 : A1;"), "A2"),
            ("alias-of-alias-of-alias", format!("A1 : {b}; A2 : A1; A3 : A2;"), "A3"),
            ("subrange", format!("R1 : {b}(0..10);"), "R1"),
            ("alias-of-subrange", format!("R1 : {b}(0..10); A2 : R1;"), "A2"),
            ("subrange-over-alias", format!("A1 : {b}; R2 : A1(0..10);"), "R2"),
            ("alias-of-subrange-over-alias", format!("A1 : {b}; R2 : A1(0..10); A3 : R2;"), "A3"),
            ("subrange-over-subrange", format!("R1 : {b}(0..20); R2 : R1(0..10);"), "R2"),
        ];
        for (shape, types, t) in &shapes {
            for init in ["", " := 3"] {
                let iname = if init.is_empty() { "default" } else { "initial-value" };
                let text = format!(
                    "TYPE {types} END_TYPE\nFUNCTION_BLOCK Holder\nVAR_INPUT fin : {t}{init}; END_VAR\nVAR fv : {t}{init}; END_VAR\n    fv := fv + {b}#1;\nEND_FUNCTION_BLOCK\nPROGRAM Main\nVAR\n    v : {t}{init};\n    w : {t};\n    h : Holder;\n    k : {b};\nEND_VAR\n    k := v;\n    w := v;\n    v := v + {b}#1;\n    h();\nEND_PROGRAM\n"
                );
                let mut c = raw("F17", &format!("type-chain:{shape}:{iname}"), &text, 2);
                let fb = FbDef { name: "Holder".into(), inputs: vec![Decl::new("fin", base)], outputs: vec![], vars: vec![Decl::new("fv", base)], body: vec![] };
                c.prog.fbs.push(fb);
                c.prog.vars = vec![Decl::new("v", base), Decl::new("w", base), Decl { name: "h".into(), ty: TyX::Fb("Holder".into()), init: None }, Decl::new("k", base)];
                out.push(c);
            }
        }
    }
    out
}

/// F18: a FUNCTION has no instance. A function that is called from a function-block body or a
/// method calls a global function whose name is also a method of that function block / reads a
/// name that is also a member of it: the function's own scope decides (outcome class only).
pub fn f18() -> Vec<Case> {
    let mut out = Vec::new();
    let global_helper = "FUNCTION Helper : DINT\nVAR_INPUT a : DINT; END_VAR\n    Helper := a + 1;\nEND_FUNCTION\n";
    let outer = "FUNCTION Outer : DINT\nVAR_INPUT v : DINT; END_VAR\n    Outer := Helper(v) * 2;\nEND_FUNCTION\n";
    for from in ["fb-body", "method"] {
        let fb = if from == "fb-body" {
            "FUNCTION_BLOCK Fb1\nVAR_OUTPUT q : DINT; END_VAR\nMETHOD PUBLIC Helper : DINT\nVAR_INPUT a : DINT; b : DINT; END_VAR\n    Helper := a - b;\nEND_METHOD\n    q := Outer(DINT#1);\nEND_FUNCTION_BLOCK\n"
        } else {
            "FUNCTION_BLOCK Fb1\nVAR_OUTPUT q : DINT; END_VAR\nMETHOD PUBLIC Helper : DINT\nVAR_INPUT a : DINT; b : DINT; END_VAR\n    Helper := a - b;\nEND_METHOD\nMETHOD PUBLIC Run : DINT\n    Run := Outer(DINT#1);\nEND_METHOD\n    q := Run();\nEND_FUNCTION_BLOCK\n"
        };
        let text = format!("{global_helper}{outer}{fb}PROGRAM Main\nVAR f : Fb1; r : DINT; END_VAR\n    f();\n    r := f.q;\nEND_PROGRAM\n");
        out.push(raw("F18", &format!("function-scope:global-function-named-like-caller-method:from-{from}"), &text, 2));
    }
    // a function's local named like a member of the calling FB
    {
        let text = "FUNCTION Twice : DINT\nVAR_INPUT v : DINT; END_VAR\nVAR level : DINT; END_VAR\n    level := v * 2;\n    Twice := level;\nEND_FUNCTION\nFUNCTION_BLOCK Fb2\nVAR level : DINT := DINT#7; END_VAR\nVAR_OUTPUT q : DINT; END_VAR\n    q := Twice(level) + level;\nEND_FUNCTION_BLOCK\nPROGRAM Main\nVAR f : Fb2; r : DINT; END_VAR\n    f();\n    r := f.q;\nEND_PROGRAM\n";
        out.push(raw("F18", "function-scope:local-named-like-caller-member", text, 2));
    }
    out
}

/// F19: late additions after wave 6 of the seeded changes.
///  * an untyped literal stored through a COMPUTED index keeps the element type;
///  * a FUNCTION_BLOCK whose body leaves through RETURN still writes its outputs back to the
///    variables connected with `=>` (value and tag, with reference);
///  * a call after an FB call with EN := FALSE still runs under the caller's USING directives.
pub fn f19() -> Vec<Case> {
    let mut out = Vec::new();
    let l = |x: i128| lit(int(Ty::Int, x));
    for t in [Ty::SInt, Ty::Int, Ty::UInt, Ty::LInt, Ty::Real] {
        let v = if t == Ty::Real { V::L(1.5) } else { int(Ty::DInt, 5) };
        let p = prog(
            vec![Decl { name: "a".into(), ty: TyX::Arr(0, 3, t), init: None }, Decl::init("i", int(Ty::Int, 1))],
            vec![S::Assign(LV::Idx("a".into(), vec![bin(Op::Add, var("i"), l(1))]), ulit(v)), S::Assign(LV::Idx("a".into(), vec![bin(Op::Sub, var("i"), l(1))]), ulit(v))],
        );
        out.push(case("F19", format!("untyped-literal:computed-index:{}", t.name()), p, 2, true));
    }
    {
        let fb = FbDef {
            name: "Lim".into(),
            inputs: vec![Decl::new("d", Ty::Int)],
            outputs: vec![Decl::new("total", Ty::Int), Decl::new("hits", Ty::Int)],
            vars: vec![],
            body: vec![
                assign("hits", bin(Op::Add, var("hits"), l(1))),
                S::If(vec![(bin(Op::Gt, var("d"), l(1)), vec![assign("total", bin(Op::Add, var("total"), var("d"))), S::Return])], None),
                assign("total", bin(Op::Sub, var("total"), l(1))),
            ],
        };
        for depth in ["if", "loop-in-if"] {
            let mut f = fb.clone();
            if depth == "loop-in-if" {
                f.body[1] = S::If(vec![(bin(Op::Gt, var("d"), l(1)), vec![S::While(lit(V::B(true)), vec![assign("total", bin(Op::Add, var("total"), var("d"))), S::Return])])], None);
            }
            let mut p = prog(
                vec![Decl { name: "fa".into(), ty: TyX::Fb("Lim".into()), init: None }, Decl::new("t", Ty::Int), Decl::new("h", Ty::Int), Decl::new("c", Ty::Int)],
                vec![assign("c", bin(Op::Add, var("c"), l(1))), S::FbCall("fa".into(), vec![Arg::In("d".into(), var("c")), Arg::Out("total".into(), "t".into()), Arg::Out("hits".into(), "h".into())])],
            );
            p.fbs.push(f);
            out.push(case("F19", format!("fb-return:output-binding:return-inside-{depth}"), p, 4, true));
        }
    }
    // `RETURN expr;` hands the value over like an assignment to the result variable (tag)
    for (t, e) in [(Ty::SInt, "5"), (Ty::Int, "5"), (Ty::UInt, "5"), (Ty::LInt, "5"), (Ty::Real, "1.5"), (Ty::DInt, "a"), (Ty::LReal, "a")] {
        let b = t.name();
        let text = format!("FUNCTION Fr : {b}\nVAR_INPUT a : INT; END_VAR\n    RETURN {e};\nEND_FUNCTION\nFUNCTION_BLOCK Hm\nMETHOD PUBLIC M : {b}\nVAR_INPUT a : INT; END_VAR\n    RETURN {e};\nEND_METHOD\nEND_FUNCTION_BLOCK\nPROGRAM Main\nVAR r : {b}; m : {b}; h : Hm; END_VAR\n    r := Fr(INT#3);\n    m := h.M(a := INT#3);\nEND_PROGRAM\n");
        let mut c = raw("F19", &format!("return-expression:{b}:{}", if e == "a" { "narrower-variable" } else { "untyped-literal" }), &text, 2);
        c.prog.vars = vec![Decl::new("r", t), Decl::new("m", t)];
        out.push(c);
    }
    // a function declared in a NAMESPACE computes the same as the plain function: the reference
    // evaluates the plain twin, the runtime the namespaced text (value and tag)
    for call in ["qualified", "using"] {
        let f = Func {
            name: "Twice".into(),
            ret: Some(Ty::DInt),
            inputs: vec![Decl::new("a", Ty::DInt)],
            locals: vec![Decl::new("t", Ty::DInt)],
            body: vec![assign("t", bin(Op::Mul, var("a"), lit(int(Ty::DInt, 2)))), assign("Twice", bin(Op::Add, var("t"), lit(int(Ty::DInt, 1))))],
            ..Default::default()
        };
        let mut p = prog(
            vec![Decl::new("x", Ty::DInt), Decl::init("k", int(Ty::DInt, 4))],
            vec![assign("x", E::Call("Twice".into(), vec![Arg::Pos(var("k"))])), assign("k", bin(Op::Add, var("k"), var("x")))],
        );
        p.funcs.push(f);
        let plain = super::ast::print(&p);
        let Some(split) = plain.find("PROGRAM Main") else { continue };
        let (funcs, main) = plain.split_at(split);
        let text = if call == "qualified" {
            format!("NAMESPACE Lib\n{funcs}END_NAMESPACE\n{}", main.replace("Twice(", "Lib.Twice("))
        } else {
            format!("NAMESPACE Lib\n{funcs}END_NAMESPACE\n{}", main.replacen("PROGRAM Main\n", "PROGRAM Main\nUSING Lib;\n", 1))
        };
        let mut c = case("F19", format!("namespaced-function:result:{call}"), p, 3, true);
        c.raw = Some(text);
        out.push(c);
    }
    // MOD with a REAL operand: must be refused by the checker or evaluate (was: accepted, TypeMismatch)
    out.push(raw("F19", "real-operand:MOD", "PROGRAM Main\nVAR r : REAL := 5.5; q : REAL; l : LREAL := 5.5; END_VAR\n    q := r MOD 2.0;\n    l := l MOD LREAL#2.0;\nEND_PROGRAM\n", 2));
    // `&` (symbolic AND): on integers it must be refused by the checker (was: untyped, TypeMismatch
    // at run time); on BOOL it evaluates
    out.push(raw("F19", "ampersand:integer-operands", "PROGRAM Main\nVAR i : INT := 3; b : BOOL; END_VAR\n    b := i & i;\nEND_PROGRAM\n", 2));
    out.push(raw("F19", "ampersand:bool-operands", "PROGRAM Main\nVAR c : BOOL := TRUE; d : BOOL; e : BOOL; END_VAR\n    d := c & TRUE;\n    e := c & NOT d;\nEND_PROGRAM\n", 2));
    // initial values of FUNCTION locals written as untyped literals take the declared type (the
    // reference sees the typed value, the text carries the untyped spelling)
    for (t, v, spell, add) in [(Ty::Int, int(Ty::Int, 32767), "32767", 1i128), (Ty::SInt, int(Ty::SInt, 100), "100", 27), (Ty::UInt, int(Ty::UInt, 65535), "65535", 0), (Ty::Int, int(Ty::Int, 5), "5", 1)] {
        let f = Func {
            name: "Loc".into(),
            ret: Some(t),
            inputs: vec![Decl::new("a", t)],
            locals: vec![Decl::init("t", v)],
            body: vec![assign("t", bin(Op::Add, var("t"), var("a"))), assign("Loc", var("t"))],
            ..Default::default()
        };
        let mut p = prog(vec![Decl::new("i", t), Decl::init("k", int(t, add))], vec![assign("i", E::Call("Loc".into(), vec![Arg::Pos(var("k"))]))]);
        p.funcs.push(f);
        let typed = super::ast::print(&p);
        let needle = format!(":= {};", v.typed_lit());
        if typed.matches(&needle).count() != 1 {
            continue;
        }
        let mut c = case("F19", format!("function-local:initial-value-untyped-literal:{}", t.name()), p, 2, true);
        c.raw = Some(typed.replace(&needle, &format!(":= {spell};")));
        out.push(c);
    }
    // arithmetic on two untyped literals is a constant and takes the type of its target, like the
    // literal of its value does (was: a DINT/LREAL stored in the narrower variable)
    {
        let p = prog(
            vec![Decl::new("i", Ty::Int), Decl::new("s", Ty::SInt), Decl::init("u", int(Ty::UInt, 16)), Decl::new("r", Ty::Real), Decl::new("k", Ty::Int)],
            vec![
                assign("i", lit(int(Ty::Int, 3))),
                assign("s", lit(int(Ty::SInt, -4))),
                assign("r", lit(V::R(3.5))),
                assign("k", bin(Op::Add, var("k"), var("i"))),
            ],
        );
        let typed = super::ast::print(&p);
        let swaps = [("INT#3;", "1 + 2;"), ("SINT#-4;", "2 - 6;"), ("UINT#16;", "2 * 8;"), ("REAL#3.5;", "1.5 + 2.0;")];
        if swaps.iter().all(|(n, _)| typed.matches(&format!(":= {n}")).count() == 1) {
            let mut text = typed.clone();
            for (n, s) in swaps {
                text = text.replace(&format!(":= {n}"), &format!(":= {s}"));
            }
            let mut c = case("F19", "constant-expression:two-untyped-literals".to_string(), p, 3, true);
            c.raw = Some(text);
            out.push(c);
        }
    }
    // an in-out argument is passed by reference: `x := a[i]` denotes the element selected when the
    // call is made, also when the callee changes `i` through another in-out (was: the value read from
    // a[0] written back to a[1]). The reference is the same computation without the call.
    {
        let l = |v: i128| lit(int(Ty::DInt, v));
        let p = prog(
            vec![Decl { name: "a".into(), ty: TyX::Arr(0, 2, Ty::DInt), init: None }, Decl::new("i", Ty::DInt), Decl::new("r", Ty::DInt)],
            vec![
                assign("i", l(0)),
                S::Assign(LV::Idx("a".into(), vec![l(0)]), bin(Op::Add, E::Idx("a".into(), vec![l(0)]), l(10))),
                assign("i", bin(Op::Add, var("i"), l(1))),
                assign("r", E::Idx("a".into(), vec![l(0)])),
            ],
        );
        for (order, call) in [("selector-first", "Bump(sel := i, x := a[i])"), ("element-first", "Bump(x := a[i], sel := i)")] {
            let text = format!("FUNCTION Bump : DINT\nVAR_IN_OUT sel : DINT; x : DINT; END_VAR\n    x := x + DINT#10;\n    sel := sel + DINT#1;\n    Bump := x;\nEND_FUNCTION\n\nPROGRAM Main\nVAR\n    a : ARRAY[0..2] OF DINT;\n    i : DINT;\n    r : DINT;\nEND_VAR\n    i := DINT#0;\n    r := {call};\nEND_PROGRAM\n");
            let mut c = case("F19", format!("in-out:indexed-actual:index-changed-by-callee:{order}"), p.clone(), 3, true);
            c.raw = Some(text);
            out.push(c);
        }
    }
    out.push(raw(
        "F19",
        "en-false:then-call-through-using",
        "NAMESPACE Lib\nFUNCTION Clamp10 : DINT\nVAR_INPUT v : DINT; END_VAR\n    IF v > 10 THEN Clamp10 := 10; ELSE Clamp10 := v; END_IF;\nEND_FUNCTION\nEND_NAMESPACE\nFUNCTION_BLOCK Gate\nVAR_INPUT EN : BOOL; x : DINT; END_VAR\nVAR_OUTPUT ENO : BOOL; y : DINT; END_VAR\n    y := x;\nEND_FUNCTION_BLOCK\nPROGRAM Main\nUSING Lib;\nVAR g : Gate; r : DINT; k : DINT; enb : BOOL; END_VAR\n    k := k + 1;\n    enb := (k MOD 2) = 0;\n    r := Clamp10(k);\n    g(EN := enb, x := k);\n    r := r + Clamp10(k + 20);\nEND_PROGRAM\n",
        4,
    ));
    out
}

pub fn corpus(thorough: bool) -> Vec<Case> {
    let mut out = Vec::new();
    out.extend(f2());
    out.extend(f1(thorough));
    out.extend(f3());
    out.extend(f4(thorough));
    out.extend(f5());
    out.extend(f6());
    out.extend(f7());
    out.extend(f8());
    out.extend(f9());
    out.extend(f10());
    out.extend(f11(thorough));
    out.extend(f12(thorough));
    out.extend(f14());
    out.extend(f15());
    out.extend(f5o());
    out.extend(f6p());
    out.extend(f3r());
    out.extend(f17());
    out.extend(f18());
    out.extend(f19());
    out.extend(super::stdlib::cases(thorough));
    out.extend(super::oop::cases(thorough));
    out
}
