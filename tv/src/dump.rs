//! Canonical dump of a runtime's variable storage: structural paths instead of instance ids.

use std::collections::BTreeMap;
use trust_runtime::memory::VariableStorage;
use trust_runtime::value::Value;
use trust_runtime::Runtime;

fn walk(storage: &VariableStorage, path: &str, v: &Value, out: &mut BTreeMap<String, String>, depth: usize) {
    if depth > 12 {
        out.insert(path.to_string(), "<too deep>".into());
        return;
    }
    match v {
        Value::Instance(id) => match storage.get_instance(*id) {
            Some(data) => {
                out.insert(format!("{path}#type"), data.type_name.to_string());
                for (name, value) in &data.variables {
                    walk(storage, &format!("{path}.{name}"), value, out, depth + 1);
                }
            }
            None => {
                out.insert(path.to_string(), "<dangling instance>".into());
            }
        },
        Value::Array(a) => {
            out.insert(format!("{path}#dims"), format!("{:?}", a.dimensions));
            for (i, e) in a.elements.iter().enumerate() {
                walk(storage, &format!("{path}[{i}]"), e, out, depth + 1);
            }
        }
        Value::Struct(s) => {
            out.insert(format!("{path}#type"), s.type_name.to_string());
            for (name, value) in &s.fields {
                walk(storage, &format!("{path}.{name}"), value, out, depth + 1);
            }
        }
        Value::Reference(Some(_)) => {
            out.insert(path.to_string(), "Reference(Some)".into());
        }
        Value::Real(f) => {
            out.insert(path.to_string(), format!("Real({:?}/{:#x})", f, f.to_bits()));
        }
        Value::LReal(f) => {
            out.insert(path.to_string(), format!("LReal({:?}/{:#x})", f, f.to_bits()));
        }
        other => {
            out.insert(path.to_string(), format!("{other:?}"));
        }
    }
}

/// path -> rendered leaf value, for all globals (program and FB instances expanded).
pub fn dump_storage(storage: &VariableStorage) -> BTreeMap<String, String> {
    let mut out = BTreeMap::new();
    for (name, value) in storage.globals() {
        walk(storage, name.as_str(), value, &mut out, 0);
    }
    for (name, value) in storage.retain() {
        walk(storage, &format!("<retain>.{name}"), value, &mut out, 0);
    }
    out.insert("<frames>".into(), storage.frames().len().to_string());
    out
}

pub fn dump_runtime(rt: &Runtime) -> BTreeMap<String, String> {
    dump_storage(rt.storage())
}
