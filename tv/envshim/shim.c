/* tvshim — LD_PRELOAD process-environment shim for the `tv` harness (crash-point enumeration, X4).
 *
 * Interposes the libc entry points through which a process changes files and, for every call
 * that touches a WATCHED path (path contains the substring $TVSHIM_WATCH, or fd opened on one):
 *   - appends one line to $TVSHIM_LOG (if set):
 *       <k> \t <op> \t <open flags, hex> \t <byte count> \t <fd> \t <path> \t <path2> \t <mark> \n
 *     written BEFORE the call is executed; <k> counts intercepted calls from 1;
 *   - if $TVSHIM_CRASH_AT == k: the process dies with _exit(137)
 *       * immediately BEFORE the k-th call (mark "CRASH-BEFORE"), or
 *       * if $TVSHIM_CRASH_BYTES = p >= 0 and the call is write/pwrite: after exactly p bytes of
 *         that call have really been written (mark "CRASH-MID"; count column = p).
 * Everything else (unwatched paths, missing environment) passes straight through.
 * Only process death is modelled: nothing is done to the page cache.
 * Build: gcc -O1 -shared -fPIC -o libtvshim.so shim.c -ldl
 */
#define _GNU_SOURCE
#include <dlfcn.h>
#include <errno.h>
#include <fcntl.h>
#include <stdarg.h>
#include <stdio.h>
#include <stdlib.h>
#include <string.h>
#include <sys/types.h>
#include <sys/uio.h>
#include <unistd.h>

#define MAXFD 4096
static const char *g_watch;
static long g_crash_at = -1, g_crash_bytes = -1;
static int g_logfd = -1, g_init, g_count;
static char *g_fdpath[MAXFD];

static ssize_t (*r_write)(int, const void *, size_t);
static ssize_t (*r_pwrite)(int, const void *, size_t, off_t);
static int (*r_close)(int);

#define REAL(var, name) do { if (!(var)) *(void **)&(var) = dlsym(RTLD_NEXT, name); } while (0)

static void init(void) {
    if (g_init) return;
    g_init = 1;
    REAL(r_write, "write"); REAL(r_pwrite, "pwrite64"); REAL(r_close, "close");
    const char *w = getenv("TVSHIM_WATCH");
    if (!w || !*w) return;
    const char *s;
    if ((s = getenv("TVSHIM_CRASH_AT")) && *s) g_crash_at = atol(s);
    if ((s = getenv("TVSHIM_CRASH_BYTES")) && *s) g_crash_bytes = atol(s);
    if ((s = getenv("TVSHIM_LOG")) && *s) {
        int (*r_open)(const char *, int, ...) = dlsym(RTLD_NEXT, "open");
        g_logfd = r_open(s, O_WRONLY | O_CREAT | O_APPEND | O_CLOEXEC, 0644);
    }
    g_watch = w; /* last: the wrappers are inert until this is set */
}

static int watched(const char *p) { init(); return g_watch && p && strstr(p, g_watch) != NULL; }
static const char *fdp(int fd) { init(); return (g_watch && fd >= 0 && fd < MAXFD) ? g_fdpath[fd] : NULL; }
static void track(int fd, const char *p) {
    if (fd >= 0 && fd < MAXFD) { free(g_fdpath[fd]); g_fdpath[fd] = strdup(p); }
}

static void logline(int k, const char *op, int flags, long n, int fd, const char *p1, const char *p2, const char *mark) {
    char buf[2400];
    int len;
    if (g_logfd < 0) return;
    len = snprintf(buf, sizeof buf, "%d\t%s\t%x\t%ld\t%d\t%s\t%s\t%s\n", k, op, flags, n, fd, p1 ? p1 : "", p2 ? p2 : "", mark);
    if (len > (int)sizeof buf) len = sizeof buf;
    r_write(g_logfd, buf, len);
}

/* Called before every intercepted call; returns the call index, or dies here. */
static int gate(const char *op, int flags, long n, int fd, const char *p1, const char *p2) {
    int k = __atomic_add_fetch(&g_count, 1, __ATOMIC_SEQ_CST);
    int is_write = !strcmp(op, "write") || !strcmp(op, "pwrite");
    if (k == g_crash_at && !(is_write && g_crash_bytes >= 0)) {
        logline(k, op, flags, n, fd, p1, p2, "CRASH-BEFORE");
        _exit(137);
    }
    if (k != g_crash_at) logline(k, op, flags, n, fd, p1, p2, "");
    return k;
}

/* ---- path based ---- */
#define OPEN_BODY(NAME, CALL)                                                     \
    mode_t mode = 0;                                                              \
    if (flags & (O_CREAT | __O_TMPFILE)) { va_list ap; va_start(ap, flags); mode = va_arg(ap, mode_t); va_end(ap); } \
    REAL(fn, NAME);                                                               \
    if (!watched(path)) return CALL;                                              \
    gate("open", flags, 0, -1, path, NULL);                                       \
    int fd = CALL;                                                                \
    if (fd >= 0) track(fd, path);                                                 \
    return fd;

int open(const char *path, int flags, ...) { static int (*fn)(const char *, int, ...); OPEN_BODY("open", fn(path, flags, mode)) }
int open64(const char *path, int flags, ...) { static int (*fn)(const char *, int, ...); OPEN_BODY("open64", fn(path, flags, mode)) }
int openat(int dfd, const char *path, int flags, ...) { static int (*fn)(int, const char *, int, ...); OPEN_BODY("openat", fn(dfd, path, flags, mode)) }
int openat64(int dfd, const char *path, int flags, ...) { static int (*fn)(int, const char *, int, ...); OPEN_BODY("openat64", fn(dfd, path, flags, mode)) }

int creat(const char *path, mode_t mode) {
    static int (*fn)(const char *, mode_t); REAL(fn, "creat");
    if (!watched(path)) return fn(path, mode);
    gate("open", O_CREAT | O_WRONLY | O_TRUNC, 0, -1, path, NULL);
    int fd = fn(path, mode); if (fd >= 0) track(fd, path); return fd;
}
int creat64(const char *path, mode_t mode) {
    static int (*fn)(const char *, mode_t); REAL(fn, "creat64");
    if (!watched(path)) return fn(path, mode);
    gate("open", O_CREAT | O_WRONLY | O_TRUNC, 0, -1, path, NULL);
    int fd = fn(path, mode); if (fd >= 0) track(fd, path); return fd;
}

#define PATH2(NAME, OP, PROTO, ARGS, A, B)                                        \
    int NAME PROTO { static int (*fn) PROTO; REAL(fn, #NAME);                     \
        if (watched(A) || watched(B)) gate(OP, 0, 0, -1, A, B);                   \
        return fn ARGS; }
/* rename: open descriptors follow the file to its new name (so later fd calls log the new path) */
#define RENAME(NAME, PROTO, ARGS)                                                 \
    int NAME PROTO { static int (*fn) PROTO; REAL(fn, #NAME);                     \
        int w = watched(a) || watched(b);                                         \
        if (w) gate("rename", 0, 0, -1, a, b);                                    \
        int r = fn ARGS;                                                          \
        if (w && r == 0) for (int i = 0; i < MAXFD; i++)                          \
            if (g_fdpath[i] && !strcmp(g_fdpath[i], a)) track(i, b);              \
        return r; }
RENAME(rename, (const char *a, const char *b), (a, b))
RENAME(renameat, (int da, const char *a, int db, const char *b), (da, a, db, b))
RENAME(renameat2, (int da, const char *a, int db, const char *b, unsigned f), (da, a, db, b, f))
PATH2(link, "link", (const char *a, const char *b), (a, b), a, b)
PATH2(linkat, "link", (int da, const char *a, int db, const char *b, int f), (da, a, db, b, f), a, b)
PATH2(symlink, "link", (const char *a, const char *b), (a, b), a, b)
PATH2(unlink, "unlink", (const char *a), (a), a, NULL)
PATH2(unlinkat, "unlink", (int da, const char *a, int f), (da, a, f), a, NULL)

int truncate(const char *p, off_t n) { static int (*fn)(const char *, off_t); REAL(fn, "truncate");
    if (watched(p)) gate("truncate", 0, (long)n, -1, p, NULL);
    return fn(p, n); }
int truncate64(const char *p, off_t n) { static int (*fn)(const char *, off_t); REAL(fn, "truncate64");
    if (watched(p)) gate("truncate", 0, (long)n, -1, p, NULL);
    return fn(p, n); }

/* ---- fd based ---- */
#define FD1(NAME, OP, PROTO, ARGS, N)                                             \
    int NAME PROTO { static int (*fn) PROTO; REAL(fn, #NAME);                     \
        const char *p = fdp(fd); if (p) gate(OP, 0, (long)(N), fd, p, NULL);      \
        return fn ARGS; }
FD1(fsync, "fsync", (int fd), (fd), 0)
FD1(fdatasync, "fdatasync", (int fd), (fd), 0)
FD1(ftruncate, "ftruncate", (int fd, off_t n), (fd, n), n)
FD1(ftruncate64, "ftruncate", (int fd, off_t n), (fd, n), n)

int close(int fd) {
    init();
    const char *p = fdp(fd);
    if (p) { gate("close", 0, 0, fd, p, NULL); free(g_fdpath[fd]); g_fdpath[fd] = NULL; }
    return r_close(fd);
}

static void die_mid(int k, const char *op, int fd, const char *p, const void *buf, size_t n, int positional, off_t off) {
    size_t want = (size_t)g_crash_bytes < n ? (size_t)g_crash_bytes : n, done = 0;
    logline(k, op, 0, (long)want, fd, p, NULL, "CRASH-MID");
    while (done < want) {
        ssize_t r = positional ? r_pwrite(fd, (const char *)buf + done, want - done, off + (off_t)done)
                               : r_write(fd, (const char *)buf + done, want - done);
        if (r < 0 && errno == EINTR) continue;
        if (r <= 0) break;
        done += (size_t)r;
    }
    _exit(137);
}

ssize_t write(int fd, const void *buf, size_t n) {
    init();
    const char *p = fdp(fd);
    if (p) { int k = gate("write", 0, (long)n, fd, p, NULL); if (k == g_crash_at) die_mid(k, "write", fd, p, buf, n, 0, 0); }
    return r_write(fd, buf, n);
}
ssize_t pwrite(int fd, const void *buf, size_t n, off_t off) {
    init();
    const char *p = fdp(fd);
    if (p) { int k = gate("pwrite", 0, (long)n, fd, p, NULL); if (k == g_crash_at) die_mid(k, "pwrite", fd, p, buf, n, 1, off); }
    return r_pwrite(fd, buf, n, off);
}
ssize_t pwrite64(int fd, const void *buf, size_t n, off_t off) {
    init();
    const char *p = fdp(fd);
    if (p) { int k = gate("pwrite", 0, (long)n, fd, p, NULL); if (k == g_crash_at) die_mid(k, "pwrite", fd, p, buf, n, 1, off); }
    return r_pwrite(fd, buf, n, off);
}
/* vectored writes: crash before / after only (no partial lengths) */
ssize_t writev(int fd, const struct iovec *iov, int cnt) {
    static ssize_t (*fn)(int, const struct iovec *, int); REAL(fn, "writev");
    const char *p = fdp(fd);
    if (p) { long n = 0; for (int i = 0; i < cnt; i++) n += (long)iov[i].iov_len; gate("writev", 0, n, fd, p, NULL); }
    return fn(fd, iov, cnt);
}
