#!/bin/bash
# Run one check against a MUTATED COPY of /repo (never touches /repo itself).
# usage: [MUT_DIR=..] [MUT_BASE=<commit>] mutcheck.sh <patch.diff | -> <Cxx> [quick|thorough]     ("-" = no patch: sanity run on the copy)
# The copy lives in ${MUT_DIR:-/tmp/mut}/{repo,tv,target,out}; it is reset from /repo and /verif/tv on every call.
set -u
PATCH="$1"; PROP="$2"; TIER="${3:-quick}"
M=${MUT_DIR:-/tmp/mut}
mkdir -p $M/out
if [ -n "${MUT_BASE:-}" ]; then
  # evaluate against an older commit of /repo (a seeded change written before a later fix rewrote the same lines)
  rm -rf $M/repo && mkdir -p $M/repo && git -C /repo archive "$MUT_BASE" | tar -x -C $M/repo || exit 2
  cp /repo/Cargo.lock $M/repo/ 2>/dev/null
else
  rsync -a --delete --exclude target --exclude .git /repo/ $M/repo/ || exit 2
fi
rsync -a --delete --exclude target /verif/tv/ $M/tv/ || exit 2
sed -i "s|/repo/crates/|$M/repo/crates/|g" $M/tv/Cargo.toml
rm -f $M/tv/.cargo/config.toml
cp /verif/known_findings.json $M/out/ 2>/dev/null
if [ "$PATCH" != "-" ]; then
  case "$PATCH" in
    *.py) (cd $M/repo && python3 "$PATCH") || { echo "mutation script failed"; exit 2; } ;;
    *) (cd $M/repo && patch -p1 --no-backup-if-mismatch < "$PATCH") || { echo "patch failed"; exit 2; } ;;
  esac
  (cd / && diff -ru --exclude target --exclude .git repo/crates ${M#/}/repo/crates | sed "s|^--- repo/|--- a/|; s|^+++ ${M#/}/repo/|+++ b/|" > $M/out/applied.diff)
fi
export CARGO_NET_OFFLINE=true CARGO_TARGET_DIR=$M/target
(cd $M/tv && cargo build --offline --bin tv 2>&1 | tail -n 30 > $M/out/build.log)
if grep -q "^error" $M/out/build.log; then
  # stale artifacts of another workspace in the shared target directory: clean the path crates and retry once
  (cd $M/tv && cargo clean --offline -p tv -p trust-runtime -p trust-wasm-analysis -p trust-ide -p trust-hir -p trust-syntax >/dev/null 2>&1; cargo build --offline --bin tv 2>&1 | tail -n 30 > $M/out/build.log)
fi
if [ ! -x $M/target/debug/tv ] || grep -q "^error" $M/out/build.log; then cat $M/out/build.log; echo "BUILD FAILED"; exit 2; fi
case "$PROP" in C14|C15)
  (cd $M/repo && CARGO_TARGET_DIR=$M/target-lsp cargo build --offline -p trust-lsp --bin trust-lsp 2>&1 | tail -n 5) ; export TV_LSP_BIN=$M/target-lsp/debug/trust-lsp ;;
esac
mkdir -p $M/target/shim
[ -f $M/tv/envshim/shim.c ] && gcc -O1 -shared -fPIC -o $M/target/shim/libtvshim.so $M/tv/envshim/shim.c -ldl && export TV_SHIM=$M/target/shim/libtvshim.so
rm -rf $M/out/replays $M/out/evidence
TV_VERIF_DIR=$M/out TV_REPO_DIR=$M/repo $M/target/debug/tv "$PROP" "$TIER"
echo "exit=$?"
